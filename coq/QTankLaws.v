(* QTankLaws.v — laws of the QueueTank model (QTank.v: a tank whose pushes
   travel through an internal AltQueueArc whose far end is the tank itself):
   travel time (no early arrival, arrival at the first close-out after the
   delay, water in transit counts towards contents and capacity, nothing lost),
   fill limit, pulls only from what has arrived.  Stated over QTank.qtank_do,
   the step the correspondence check runs against wsimod.nodes.tanks.QueueTank. *)
From Coq Require Import QArith Qminmax Lqa Lia List Bool Arith Setoid Morphisms.
From WSI Require Import Vqip Pow Enc Tank Arc QTank Run TankLaws ArcLaws.
Import ListNotations.
Open Scope Q_scope.

(* ---- buckets ---- *)
Fixpoint csum (c : sel) (b : list vqip) : Q :=
  match b with [] => 0 | x :: r => cmp c x + csum c r end.

Lemma cmp_fold_vsum c b : conserved c -> forall z, cmp c (fold_left vsum b z) == cmp c z + csum c b.
Proof.
  intros Hc. induction b as [|x b IH]; intros z; cbn [fold_left csum]; [ring|].
  rewrite IH, cmp_sum by exact Hc. ring.
Qed.
Lemma csum_app c a b : csum c (a ++ b) == csum c a + csum c b.
Proof. induction a as [|x a IH]; cbn [app csum]; [ring | rewrite IH; ring]. Qed.

Lemma bget_nil k : bget [] k = vzero.
Proof. unfold bget; destruct k; reflexivity. Qed.
Lemma cmp_bget_badd c : conserved c -> forall k b v j,
  cmp c (bget (badd b k v) j) == cmp c (bget b j) + (if Nat.eqb j k then cmp c v else 0).
Proof.
  intros Hc. induction k as [|k IH]; intros b v j.
  - destruct b as [|x b]; destruct j as [|j]; cbn [badd bget nth Nat.eqb];
      rewrite ?cmp_sum, ?cmp_zero by exact Hc; try ring.
    destruct j; cbn; rewrite cmp_zero; ring.
  - destruct b as [|x b]; destruct j as [|j]; cbn [badd Nat.eqb].
    + unfold bget; cbn [nth]. ring.
    + change (bget (vzero :: badd [] k v) (S j)) with (bget (badd [] k v) j).
      rewrite IH. rewrite !bget_nil. reflexivity.
    + unfold bget; cbn [nth]. ring.
    + change (bget (x :: badd b k v) (S j)) with (bget (badd b k v) j).
      change (bget (x :: b) (S j)) with (bget b j). apply IH.
Qed.
Lemma csum_badd c : conserved c -> forall k b v, csum c (badd b k v) == csum c b + cmp c v.
Proof.
  intros Hc. induction k as [|k IH]; intros b v; destruct b as [|x b]; cbn [badd csum].
  - rewrite cmp_sum, cmp_zero by exact Hc. ring.
  - rewrite cmp_sum by exact Hc. ring.
  - rewrite IH, cmp_zero. cbn [csum]. ring.
  - rewrite IH. ring.
Qed.
Lemma bget_app_zero b j : bget (b ++ [vzero]) j = bget b j.
Proof.
  unfold bget. destruct (Nat.lt_ge_cases j (length b)) as [H|H].
  - apply app_nth1; exact H.
  - rewrite app_nth2 by exact H. rewrite (nth_overflow b) by exact H.
    destruct (j - length b)%nat as [|[|m]]; reflexivity.
Qed.
Lemma bget_tl2 b j : bget (tl (tl b)) j = bget b (S (S j)).
Proof. unfold bget. destruct b as [|x [|y b]]; cbn [tl nth]; destruct j; reflexivity. Qed.
Lemma csum_tl2 c b : csum c b == cmp c (bget b 0) + cmp c (bget b 1) + csum c (tl (tl b)).
Proof.
  destruct b as [|x [|y b]]; unfold bget; cbn [tl nth csum]; rewrite ?cmp_zero; ring.
Qed.

(* ---- observables of a queue tank ---- *)
Definition act (t : qtank) : vqip := s_act (qt_s t).
Definition sto (t : qtank) : vqip := s_sto (qt_s t).
Definition cap (t : qtank) : Q := s_cap (qt_s t).
Definition bucket (t : qtank) (k : nat) : vqip := bget (l_b (qt_l t)) k.
Definition delay (t : qtank) : nat := l_n (qt_l t).
Definition plain (t : qtank) : Prop := l_dec (qt_l t) = [].

(* invariant of every reachable non-decaying queue tank *)
Definition qt_ok (t : qtank) : Prop :=
  plain t /\
  (forall c, conserved c -> cmp c (bucket t 0) == 0) /\
  (forall c, conserved c -> cmp c (sto t) == cmp c (act t) + csum c (l_b (qt_l t))) /\
  nonneg (act t) /\ (forall k, nonneg (bucket t k)) /\
  0 <= a_fin (l_a (qt_l t)) <= a_cap (l_a (qt_l t)).

Lemma nonneg_bget_nil k : nonneg (bget [] k).
Proof. rewrite bget_nil. apply nonneg_zero. Qed.

Lemma qt_init_ok cap0 init n : nonneg init -> qt_ok (qt_init cap0 init n []).
Proof.
  intros Hn. unfold qt_ok, plain, bucket, act, sto, qt_init, l_init, a_init; cbn.
  split; [reflexivity|]. split; [intros c _; rewrite cmp_zero; reflexivity|].
  split; [intros c _; rewrite !cmp_zero; ring|]. split; [exact Hn|].
  split; [|lra]. intros [|[|[|k]]]; unfold bget; cbn; apply nonneg_zero.
Qed.

(* ---------------- an unforced push with travel time ---------------- *)
Section Push.
Variables (t : qtank) (v : vqip) (time : nat).
Hypothesis Hok : qt_ok t.
Hypothesis Hw : wet v.
Hypothesis Hbig : eps <= vol v.      (* pushes below FLOAT_ACCURACY are not admitted at all *)

Let D := (time + delay t)%nat.
Let t' := fst (qt_push t v time false).
Let r := snd (qt_push t v time false).
Let entered := vsub v r.

Let E := vol (a_excess_push qts qt_port (l_a (qt_l t)) (qt_s t) (Some v)).
Let x := Qmax (vol v - E) 0.
Let np := vchange v x.
Let v1 := vsub v np.

Lemma qpush_E : 0 <= E /\ E <= Qmax (cap t - vol (sto t)) 0 /\ E <= a_cap (l_a (qt_l t)) - a_fin (l_a (qt_l t)).
Proof.
  destruct Hok as (_ & _ & _ & _ & _ & Hf).
  unfold E. rewrite excess_push_vol. cbn [qt_port p_push_check vol].
  rewrite Qred_correct. unfold qts_excess. rewrite vol_change.
  pose proof (proj1 Hw SVol I) as Hv; cbn [cmp] in Hv.
  fold (sto t). fold (cap t).
  pose proof (Q.le_max_r (cap t - vol (sto t)) 0).
  split; [apply Q.min_glb; [lra | apply Q.min_glb; lra]|].
  split; [eapply Qle_trans; [apply Q.le_min_r | apply Q.le_min_r] | apply Q.le_min_l].
Qed.
Lemma qpush_x : 0 <= x <= vol v.
Proof.
  destruct qpush_E as (H1 & _). pose proof (proj1 Hw SVol I) as Hv; cbn [cmp] in Hv.
  unfold x. split; [apply Q.le_max_r | apply Q.max_lub; lra].
Qed.
Lemma qpush_v1 : wet v1 /\ vol v1 == vol v - x /\ vol v1 <= E /\ 0 <= vol v1.
Proof.
  pose proof qpush_x as Hx. split; [apply wet_rest; [exact Hw | exact Hx]|].
  unfold v1, np. rewrite vol_sub, vol_change. split; [reflexivity|].
  unfold x in *. destruct (Q.max_spec (vol v - E) 0) as [[H0 H]|[H0 H]]; rewrite H in *; lra.
Qed.

Lemma not_tiny : Qltb (vol v) eps = false.
Proof. unfold Qltb. destruct (Qlt_le_dec (vol v) eps); [lra | reflexivity]. Qed.

(* the state after the push, field by field *)
Lemma qpush_unfold :
  r = vsum np vzero /\
  s_act (qt_s t') = vsum (act t) (bget (badd (l_b (qt_l t)) D v1) 0) /\
  l_b (qt_l t') = match badd (l_b (qt_l t)) D v1 with [] => [] | _ :: rest => vzero :: rest end /\
  s_sto (qt_s t') = vsum (sto t) (vchange v (vol v - vol r)) /\
  s_cap (qt_s t') = cap t /\ l_n (qt_l t') = delay t /\ l_dec (qt_l t') = [] /\
  a_fin (l_a (qt_l t')) = Qred (a_fin (l_a (qt_l t)) + Qred (vol v1 / inject_Z (Z.of_nat (D + 1)))) /\
  a_cap (l_a (qt_l t')) = a_cap (l_a (qt_l t)).
Proof.
  destruct Hok as (Hp & _). unfold plain in Hp.
  unfold t', r, qt_push, l_send_push. rewrite not_tiny.
  fold E. fold x. fold np. fold v1. fold (delay t). fold D.
  unfold l_update, l_enter. rewrite Hp. cbn [l_b l_a l_n l_dec l_qs l_qs_ l_decayed l_T qt_port p_push_set].
  cbn [fst snd qt_s qt_l s_act s_sto s_cap l_b l_a l_n l_dec a_fin a_cap].
  repeat split; reflexivity.
Qed.

Theorem qt_push_spec :
  qt_ok t' /\
  (* reply between nothing and the offer; what entered plus reply is the offer *)
  (forall c, conserved c -> 0 <= cmp c r <= cmp c v) /\
  (* contents (incl. transit) grow by exactly what entered, and never above capacity *)
  (forall c, conserved c -> cmp c (sto t') == cmp c (sto t) + (cmp c v - cmp c r)) /\
  vol (sto t') <= Qmax (cap t) (vol (sto t)) /\
  (* it lands in the bucket of its delay; active only when the delay is zero *)
  (forall c, conserved c -> cmp c (act t') == cmp c (act t) + (if Nat.eqb D 0 then cmp c v - cmp c r else 0)) /\
  (forall c k, conserved c -> k <> O ->
     cmp c (bucket t' k) == cmp c (bucket t k) + (if Nat.eqb k D then cmp c v - cmp c r else 0)) /\
  cap t' = cap t /\ delay t' = delay t.
Proof.
  destruct qpush_unfold as (Er & Eact & Eb & Esto & Ecap & En & Edec & Efin & Eacap).
  destruct Hok as (Hp & Hb0 & Hsum & Hact & Hbk & Hf).
  destruct qpush_v1 as (Wv1 & Vv1 & Vle & Vge). pose proof qpush_x as Hx. destruct qpush_E as (E0 & E1 & E2).
  assert (Hr : forall c, conserved c -> cmp c r == cmp c np).
  { intros c Hc. rewrite Er, cmp_sum, cmp_zero by exact Hc. ring. }
  assert (Hnp : forall c, conserved c -> 0 <= cmp c np <= cmp c v).
  { intros c Hc. apply change_within; [exact Hc | exact (proj1 Hw) | exact Hx | exact (proj2 Hw)]. }
  assert (Hv1 : forall c, conserved c -> cmp c v1 == cmp c v - cmp c r).
  { intros c Hc. unfold v1. rewrite cmp_sub, (Hr c Hc) by exact Hc. reflexivity. }
  assert (Hent : forall c, conserved c -> cmp c (vchange v (vol v - vol r)) == cmp c v - cmp c r).
  { intros c Hc. rewrite (vchange_ext v (vol v - vol r) (vol v - x) c).
    2:{ pose proof (Hr SVol I) as H0; cbn [cmp] in H0. rewrite H0. unfold np. rewrite vol_change. reflexivity. }
    pose proof (change_split_wet c v x Hc Hw). rewrite (Hr c Hc). unfold np. lra. }
  assert (Hbk' : forall c k, conserved c ->
            cmp c (bucket t' k) == if Nat.eqb k 0 then 0 else cmp c (bget (badd (l_b (qt_l t)) D v1) k)).
  { intros c k Hc. unfold bucket. rewrite Eb.
    destruct (badd (l_b (qt_l t)) D v1) as [|y rest] eqn:Ebd; destruct k as [|k]; cbn [Nat.eqb];
      rewrite ?bget_nil, ?cmp_zero; try reflexivity; unfold bget; cbn [nth]; try apply cmp_zero; try reflexivity. }
  assert (Hcs : forall c, conserved c ->
            csum c (l_b (qt_l t')) == csum c (l_b (qt_l t)) + cmp c v1 - cmp c (bget (badd (l_b (qt_l t)) D v1) 0)).
  { intros c Hc. rewrite Eb. pose proof (csum_badd c Hc D (l_b (qt_l t)) v1) as Hs.
    destruct (badd (l_b (qt_l t)) D v1) as [|y rest]; cbn [csum] in *.
    - rewrite bget_nil, cmp_zero. lra.
    - unfold bget; cbn [nth]. rewrite cmp_zero. lra. }
  split.
  { unfold qt_ok, plain. split; [exact Edec|].
    split; [intros c Hc; rewrite (Hbk' c O Hc); reflexivity|].
    split.
    { intros c Hc. unfold sto, act. rewrite Esto, Eact, !cmp_sum by exact Hc.
      rewrite (Hent c Hc), (Hcs c Hc), (Hsum c Hc), (Hv1 c Hc). ring. }
    split.
    { intros c Hc. unfold act. rewrite Eact, cmp_sum by exact Hc.
      rewrite (cmp_bget_badd c Hc). pose proof (Hact c Hc). pose proof (Hbk O c Hc). unfold bucket in *.
      destruct (Nat.eqb 0 D); pose proof (proj1 Wv1 c Hc); lra. }
    split.
    { intros k c Hc. rewrite (Hbk' c k Hc). destruct (Nat.eqb k 0); [lra|].
      rewrite (cmp_bget_badd c Hc). pose proof (Hbk k c Hc). unfold bucket in *.
      destruct (Nat.eqb k D); pose proof (proj1 Wv1 c Hc); lra. }
    rewrite Efin, Eacap, !Qred_correct.
    assert (0 <= vol v1 / inject_Z (Z.of_nat (D + 1)) <= vol v1).
    { assert (Hd : 1 <= inject_Z (Z.of_nat (D + 1))).
      { rewrite <- (Zle_Qle 1). lia. }
      split; [apply Qle_shift_div_l; lra | apply Qle_shift_div_r; [lra|]]. nra. }
    lra. }
  split; [intros c Hc; rewrite (Hr c Hc); apply Hnp; exact Hc|].
  split; [intros c Hc; unfold sto at 1; rewrite Esto, cmp_sum by exact Hc; rewrite (Hent c Hc); reflexivity|].
  split.
  { unfold sto at 1. rewrite Esto, vol_sum. pose proof (Hent SVol I) as H0; cbn [cmp] in H0. rewrite H0.
    pose proof (Hv1 SVol I) as H1; cbn [cmp] in H1.
    destruct (Q.max_spec (cap t - vol (sto t)) 0) as [[M0 M]|[M0 M]]; rewrite M in E1;
      destruct (Q.max_spec (cap t) (vol (sto t))) as [[N0 N]|[N0 N]]; rewrite N; lra. }
  split.
  { intros c Hc. unfold act at 1. rewrite Eact, cmp_sum by exact Hc. rewrite (cmp_bget_badd c Hc).
    pose proof (Hb0 c Hc) as B0. unfold bucket in B0. rewrite B0. pose proof (Hv1 c Hc) as V.
    rewrite (Nat.eqb_sym 0 D). destruct (Nat.eqb D 0); lra. }
  split.
  { intros c k Hc Hk. rewrite (Hbk' c k Hc). destruct k as [|k]; [congruence|]. change (Nat.eqb (S k) 0) with false. cbv iota.
    rewrite (cmp_bget_badd c Hc). pose proof (Hv1 c Hc) as V. unfold bucket. destruct (Nat.eqb (S k) D); lra. }
  split; [exact Ecap | exact En].
Qed.
End Push.

(* ---------------- close-out: everything moves one step nearer ---------------- *)
Section End_.
Variables (t : qtank) (T : Q).
Hypothesis Hok : qt_ok t.
Let t' := qt_end (qt_set_T t T).

Lemma qend_unfold :
  s_act (qt_s t') = vsum (act t) (vsum (bucket t 0) (bucket t 1)) /\
  l_b (qt_l t') = vzero :: (tl (tl (l_b (qt_l t))) ++ [vzero]) /\
  s_sto (qt_s t') = sto t /\ s_sto_ (qt_s t') = sto t /\ s_cap (qt_s t') = cap t /\
  l_n (qt_l t') = delay t /\ l_dec (qt_l t') = [] /\
  a_fin (l_a (qt_l t')) = 0 /\ a_cap (l_a (qt_l t')) = a_cap (l_a (qt_l t)).
Proof.
  destruct Hok as (Hp & _). unfold plain in Hp.
  unfold t', qt_end, qt_set_T, l_set_T. cbn [qt_l qt_s l_dec]. rewrite Hp.
  unfold l_end. cbn [l_dec l_b l_a l_n l_qs l_qs_ l_decayed l_T]. rewrite ?Hp.
  unfold l_update. cbn [l_b l_a l_n l_qs l_qs_ l_decayed l_T l_dec app qt_port p_push_set bget nth].
  cbn [fst snd qt_s qt_l s_act s_sto s_sto_ s_cap l_b l_a l_n l_dec a_fin a_cap a_end].
  repeat split; reflexivity.
Qed.

Theorem qt_end_spec :
  qt_ok t' /\
  (forall c, conserved c -> cmp c (act t') == cmp c (act t) + cmp c (bucket t 1)) /\
  (forall c k, conserved c -> cmp c (bucket t' (S k)) == cmp c (bucket t (S (S k)))) /\
  (forall c, conserved c -> cmp c (sto t') == cmp c (sto t)) /\
  s_sto_ (qt_s t') = sto t /\ cap t' = cap t /\ delay t' = delay t.
Proof.
  destruct qend_unfold as (Eact & Eb & Esto & Esto_ & Ecap & En & Edec & Efin & Eacap).
  destruct Hok as (Hp & Hb0 & Hsum & Hact & Hbk & Hf).
  assert (Hbk' : forall k, bucket t' (S k) = bucket t (S (S k))).
  { intros k. unfold bucket. rewrite Eb. change (bget (vzero :: ?l) (S k)) with (bget l k).
    rewrite bget_app_zero, bget_tl2. reflexivity. }
  assert (Hact' : forall c, conserved c -> cmp c (act t') == cmp c (act t) + cmp c (bucket t 1)).
  { intros c Hc. unfold act at 1. rewrite Eact, !cmp_sum by exact Hc. rewrite (Hb0 c Hc). ring. }
  split.
  { unfold qt_ok, plain. split; [exact Edec|].
    split; [intros c Hc; unfold bucket; rewrite Eb; unfold bget; cbn [nth]; apply cmp_zero|].
    split.
    { intros c Hc. rewrite (Hact' c Hc). unfold sto. rewrite Esto, Eb. cbn [csum]. rewrite cmp_zero, csum_app.
      cbn [csum]. rewrite cmp_zero. rewrite (Hsum c Hc). rewrite (csum_tl2 c (l_b (qt_l t))).
      pose proof (Hb0 c Hc) as B0. unfold bucket in *. rewrite B0. ring. }
    split; [intros c Hc; rewrite (Hact' c Hc); pose proof (Hact c Hc); pose proof (Hbk 1%nat c Hc); lra|].
    split.
    { intros [|k] c Hc; [unfold bucket; rewrite Eb; unfold bget; cbn [nth]; rewrite cmp_zero; lra|].
      rewrite Hbk'. apply Hbk; exact Hc. }
    rewrite Efin, Eacap. lra. }
  split; [exact Hact'|].
  split; [intros c k _; rewrite Hbk'; reflexivity|].
  split; [intros c _; unfold sto at 1; rewrite Esto; reflexivity|].
  split; [exact Esto_ | split; [exact Ecap | exact En]].
Qed.
End End_.

(* m consecutive close-outs with nothing in between *)
Fixpoint ends (m : nat) (t : qtank) (T : Q) : qtank :=
  match m with O => t | S m' => qt_end (qt_set_T (ends m' t T) T) end.
Fixpoint psum (f : nat -> Q) (n : nat) : Q :=
  match n with O => 0 | S k => psum f k + f k end.

Theorem qt_ends_spec m t T : qt_ok t ->
  qt_ok (ends m t T) /\
  (forall c, conserved c -> cmp c (act (ends m t T)) == cmp c (act t) + psum (fun i => cmp c (bucket t (S i))) m) /\
  (forall c k, conserved c -> cmp c (bucket (ends m t T) (S k)) == cmp c (bucket t (S k + m))) /\
  (forall c, conserved c -> cmp c (sto (ends m t T)) == cmp c (sto t)).
Proof.
  intros Hok. induction m as [|m IH]; cbn [ends psum].
  - split; [exact Hok|]. split; [intros; ring|]. split; [intros c k _; rewrite Nat.add_0_r; reflexivity | intros; reflexivity].
  - destruct IH as (I1 & I2 & I3 & I4).
    destruct (qt_end_spec (ends m t T) T I1) as (E1 & E2 & E3 & E4 & _).
    split; [exact E1|]. split.
    { intros c Hc. rewrite (E2 c Hc), (I2 c Hc), (I3 c O Hc). cbn [Nat.add]. ring. }
    split.
    { intros c k Hc. rewrite (E3 c k Hc), (I3 c (S k) Hc). replace (S (S k) + m)%nat with (S k + S m)%nat by lia. reflexivity. }
    intros c Hc. rewrite (E4 c Hc). apply I4; exact Hc.
Qed.

(* ---------------- pulls take only what has arrived ---------------- *)
Theorem qt_pull_spec t q : qt_ok t -> 0 <= q ->
  let t' := fst (qt_pull t q) in let r := snd (qt_pull t q) in
  qt_ok t' /\ vol r <= q /\
  (forall c, conserved c -> 0 <= cmp c r <= cmp c (act t)) /\
  (forall c, conserved c -> cmp c (act t') == cmp c (act t) - cmp c r) /\
  (forall c, conserved c -> cmp c (sto t') == cmp c (sto t) - cmp c r) /\
  (forall k, bucket t' k = bucket t k) /\ cap t' = cap t /\ delay t' = delay t.
Proof.
  intros Hok Hq. destruct Hok as (Hp & Hb0 & Hsum & Hact & Hbk & Hf).
  unfold qt_pull. cbn [fst snd]. fold (act t). fold (sto t).
  set (r := vchange (act t) (Qmin q (vol (act t)))).
  pose proof (Hact SVol I) as A0; cbn [cmp] in A0.
  assert (Hm : 0 <= Qmin q (vol (act t)) <= vol (act t)) by (split; [apply Q.min_glb; lra | apply Q.le_min_r]).
  assert (Hr : forall c, conserved c -> 0 <= cmp c r <= cmp c (act t)).
  { intros c Hc. unfold r. destruct (Qlt_le_dec 0 (vol (act t))) as [Hpos|Hz].
    - apply change_within; [exact Hc | exact Hact | exact Hm | lra].
    - (* empty active store: the reply is empty in volume; pollutant mass of a dry store is handed over whole *)
      destruct (cmp_change_cases c (act t) (Qmin q (vol (act t))) Hc) as [[Hp' _]|[_ E]]; [lra|].
      rewrite E. destruct c as [|k|k]; [cbn [cmp]; lra | pose proof (Hact (SAdd k) I); lra | destruct Hc]. }
  split.
  { unfold qt_ok, plain, act, sto, bucket; cbn [qt_s qt_l s_act s_sto]. split; [exact Hp|]. split; [exact Hb0|].
    split; [intros c Hc; rewrite !cmp_sub by exact Hc; rewrite (Hsum c Hc); unfold act, sto; ring|].
    split; [intros c Hc; rewrite cmp_sub by exact Hc; pose proof (Hr c Hc); unfold act in *; lra|].
    split; [exact Hbk | exact Hf]. }
  split; [unfold r; rewrite vol_change; apply Q.le_min_l|].
  split; [exact Hr|].
  split; [intros c Hc; unfold act at 1; cbn [qt_s s_act]; apply cmp_sub; exact Hc|].
  split; [intros c Hc; unfold sto at 1; cbn [qt_s s_sto]; apply cmp_sub; exact Hc|].
  split; [reflexivity | split; reflexivity].
Qed.

(* ---------------- impulse response ---------------- *)
(* Water pushed with total delay D >= 1 is not in the active store after m < D
   close-outs whatever is pulled meanwhile (pulls are bounded by the active
   store, theorem above), sits in bucket D - m, and is in the active store
   after exactly D close-outs.  Stated on the increment the push causes. *)
Theorem qt_impulse t v time T : qt_ok t -> wet v -> eps <= vol v ->
  let D := (time + delay t)%nat in
  let tp := fst (qt_push t v time false) in
  let entered c := cmp c v - cmp c (snd (qt_push t v time false)) in
  forall c, conserved c -> forall m,
    cmp c (act (ends m tp T)) - cmp c (act (ends m t T)) ==
      (if Nat.leb D m then entered c else 0) /\
    (forall k, cmp c (bucket (ends m tp T) (S k)) - cmp c (bucket (ends m t T) (S k)) ==
      (if Nat.eqb (S k + m) D then entered c else 0)).
Proof.
  intros Hok Hw Hbig D tp entered c Hc m.
  destruct (qt_push_spec t v time Hok Hw Hbig) as (P1 & _ & _ & _ & P5 & P6 & _ & _).
  fold tp in P1, P5, P6. fold D in P5, P6.
  destruct (qt_ends_spec m tp T P1) as (_ & A2 & A3 & _).
  destruct (qt_ends_spec m t T Hok) as (_ & B2 & B3 & _).
  split.
  - rewrite (A2 c Hc), (B2 c Hc), (P5 c Hc). fold (entered c).
    assert (Hps : psum (fun i => cmp c (bucket tp (S i))) m - psum (fun i => cmp c (bucket t (S i))) m
                  == if (Nat.ltb 0 D && Nat.leb D m)%bool then entered c else 0).
    { clear A2 A3 B2 B3. induction m as [|m IH]; cbn [psum].
      - rewrite andb_comm. destruct D; cbn; ring.
      - rewrite (P6 c (S m) Hc ltac:(lia)). fold (entered c).
        assert (Hx : psum (fun i => cmp c (bucket tp (S i))) m + (cmp c (bucket t (S m)) + (if Nat.eqb (S m) D then entered c else 0))
                 - (psum (fun i => cmp c (bucket t (S i))) m + cmp c (bucket t (S m)))
                 == (psum (fun i => cmp c (bucket tp (S i))) m - psum (fun i => cmp c (bucket t (S i))) m)
                    + (if Nat.eqb (S m) D then entered c else 0)) by ring.
        rewrite Hx, IH. clear Hx IH.
        destruct (Nat.ltb_spec 0 D), (Nat.leb_spec D m), (Nat.leb_spec D (S m)), (Nat.eqb_spec (S m) D);
          cbn [andb]; try lia; ring. }
    revert Hps. destruct (Nat.ltb_spec 0 D), (Nat.leb_spec D m), (Nat.eqb_spec D 0); cbn [andb]; intros Hps; try lia; lra.
  - intros k. rewrite (A3 c k Hc), (B3 c k Hc), (P6 c (S k + m)%nat Hc ltac:(lia)). fold (entered c). ring.
Qed.

(* ---------------- time-area split ---------------- *)
(* Splitting a wet flux into parts v_change(v, vol v * f_i) with the f_i summing to 1
   gives parts that add up to the flux (volume and every additive pollutant). *)
Fixpoint fsum (fs : list Q) : Q := match fs with [] => 0 | f :: r => f + fsum r end.
Fixpoint parts_sum (c : sel) (v : vqip) (fs : list Q) : Q :=
  match fs with [] => 0 | f :: r => cmp c (vchange v (vol v * f)) + parts_sum c v r end.
Theorem timearea_split c v fs : conserved c -> wet v -> fsum fs == 1 -> parts_sum c v fs == cmp c v.
Proof.
  intros Hc [Hn Hd] Hs.
  assert (G : parts_sum c v fs == cmp c v * fsum fs).
  { clear Hs. induction fs as [|f fs IH]; cbn [parts_sum fsum]; [ring|]. rewrite IH.
    destruct (cmp_change_cases c v (vol v * f) Hc) as [[Hp E]|[Hp E]]; rewrite E.
    - field. lra.
    - pose proof (Hn SVol I) as H0; cbn [cmp] in H0. assert (Hz : vol v == 0) by lra.
      destruct c as [|k|k]; [cbn [cmp]; rewrite Hz; ring | cbn [cmp]; rewrite (Hd Hp k); ring | destruct Hc]. }
  rewrite G, Hs. ring.
Qed.

(* a concrete non-trivial state meeting the hypotheses of the theorems above *)
Lemma nonneg_lit1 x a n : 0 <= x -> 0 <= a -> nonneg (mkV x [a] [n]).
Proof.
  intros Hx Ha [|k|k] Hc; [exact Hx | | destruct Hc]. cbn [cmp adds]. unfold get.
  destruct k as [|[|k]]; cbn; lra.
Qed.
Lemma wet_lit1 x a n : 0 < x -> 0 <= a -> wet (mkV x [a] [n]).
Proof. intros Hx Ha. split; [apply nonneg_lit1; lra | cbn [vol]; intros H; lra]. Qed.
Lemma qt_example_ok :
  let t := qt_init (10#1) (mkV (2#1) [1#2] [15#1]) 2 [] in
  qt_ok t /\ wet (mkV (3#1) [1#1] [20#1]) /\ eps <= 3.
Proof.
  split; [apply qt_init_ok; apply nonneg_lit1; lra|]. split; [apply wet_lit1; lra | unfold eps; lra].
Qed.

(* ---- QueueTank.reinit (sixth round): a re-initialised plain queue tank is a state the timetable theorems apply to - nothing
   declared, nothing arrived, nothing under way in any bucket, nothing admitted, the same capacity and built-in delay:
   what is pushed afterwards arrives as into a fresh tank, whatever the tank had been used for *)
Lemma qt_reinit_ok t : plain t -> 0 <= a_cap (l_a (qt_l t)) ->
  qt_ok (qt_reinit t) /\ sto (qt_reinit t) = vzero /\ act (qt_reinit t) = vzero /\
  (forall k c, cmp c (bucket (qt_reinit t) k) == 0) /\ cap (qt_reinit t) = cap t /\ delay (qt_reinit t) = delay t /\
  a_fin (l_a (qt_l (qt_reinit t))) = 0.
Proof.
  intros Hp Hcap. unfold plain in Hp.
  assert (E : l_reinit (qt_l t) =
              mkAlt (a_end (l_a (qt_l t))) (l_n (qt_l t)) [vzero; vzero] vzero (l_qs (qt_l t)) [] vzero (l_T (qt_l t))).
  { unfold l_reinit, l_end. rewrite Hp. reflexivity. }
  assert (B : forall k c, cmp c (bget [vzero; vzero] k) == 0).
  { intros k c. destruct k as [|[|k]]; cbn [bget nth]; try apply cmp_zero.
    unfold bget. destruct k; cbn [nth]; apply cmp_zero. }
  unfold qt_ok, plain, sto, act, cap, delay, bucket, qt_reinit. cbn [qt_s qt_l s_sto s_act s_cap]. rewrite E.
  cbn [l_dec l_b l_a l_n a_end a_fin a_cap csum].
  repeat split; try reflexivity.
  - intros c _. apply B.
  - intros c _. rewrite !cmp_zero. ring.
  - apply nonneg_zero.
  - intros k. destruct k as [|[|k]]; cbn [bget nth]; try apply nonneg_zero.
    unfold bget. destruct k; cbn [nth]; apply nonneg_zero.
  - lra.
  - exact Hcap.
  - intros k c. apply B.
Qed.

(* ... so the first push after a reinit arrives exactly when it is due, whatever the tank went through before *)
Theorem qt_reinit_then_push t v time T : plain t -> 0 <= a_cap (l_a (qt_l t)) -> wet v -> eps <= vol v ->
  let t0 := qt_reinit t in
  let entered c := cmp c v - cmp c (snd (qt_push t0 v time false)) in
  forall c, conserved c -> forall m,
    cmp c (act (ends m (fst (qt_push t0 v time false)) T)) == (if Nat.leb (time + delay t) m then entered c else 0).
Proof.
  intros Hp Hcap Hw Hbig t0 entered c Hc m.
  destruct (qt_reinit_ok t Hp Hcap) as (Hok & _ & Hact & Hb & _ & Hd & _). fold t0 in Hok, Hact, Hb, Hd.
  destruct (qt_impulse t0 v time T Hok Hw Hbig c Hc m) as (HA & _).
  destruct (qt_ends_spec m t0 T Hok) as (_ & HE & _).
  assert (Hz : psum (fun i => cmp c (bucket t0 (S i))) m == 0).
  { clear HA HE. induction m as [|m IH]; cbn [psum]; [reflexivity|]. rewrite IH, Hb. ring. }
  rewrite (HE c Hc), Hact, cmp_zero, Hz in HA. rewrite Hd in HA. unfold entered. 
  destruct (Nat.leb (time + delay t) m); lra.
Qed.
