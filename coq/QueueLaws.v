(* QueueLaws.v — laws of the QueueArc / DecayArc model (Arc.v: a list of
   requests with remaining travel time).
   - ledger (C02): for ARBITRARY end-node behaviour, what entered equals what
     left plus the change in transit plus what decayed, up to the requests the
     code drops because their volume is below FLOAT_ACCURACY ("dust", each
     provably smaller than eps in volume); backflow is part of the reply and is
     taken out of the inflow record — kept once, dropped never;
   - travel time (C09): update_queue delivers or bounces exactly the requests
     of its direction whose remaining time is 0 and keeps all others; close-out
     lowers every remaining time by one;
   - admission (C05): against contract-respecting ends the averaged admitted
     flow never exceeds the capacity.
   Stated over Arc.qarc_do, the step the correspondence check runs against
   wsimod.arcs.arcs.{QueueArc, DecayArc}. *)
From Coq Require Import QArith Qminmax Lqa Lia List Bool Arith Setoid Morphisms.
From WSI Require Import Vqip Pow Enc Tank Arc QTank Run TankLaws ArcLaws.
Import ListNotations.
Open Scope Q_scope.

Lemma eps_pos : 0 < eps.
Proof. reflexivity. Qed.
Lemma Qltb_false a b : Qltb a b = false -> b <= a.
Proof. unfold Qltb. destruct (Qlt_le_dec a b); [discriminate | intros _; assumption]. Qed.
Lemma Qltb_true a b : Qltb a b = true -> a < b.
Proof. unfold Qltb. destruct (Qlt_le_dec a b); [intros _; assumption | discriminate]. Qed.

Lemma change_split_pos c t x : conserved c -> 0 < vol t ->
  cmp c (vchange t x) + cmp c (vchange t (vol t - x)) == cmp c t.
Proof.
  intros Hc Hp. rewrite !cmp_change_pos by assumption. field. lra.
Qed.

(* sum of the conserved components over a request list *)
Fixpoint qsumc (c : sel) (rs : list qreq) : Q :=
  match rs with [] => 0 | r :: rest => cmp c (r_v r) + qsumc c rest end.
Lemma qsumc_app c a b : qsumc c (a ++ b) == qsumc c a + qsumc c b.
Proof. induction a as [|x a IH]; cbn [app qsumc]; [ring | rewrite IH; ring]. Qed.
Lemma cmp_fold_req c rs : conserved c -> forall z,
  cmp c (fold_left (fun acc r => vsum acc (r_v r)) rs z) == cmp c z + qsumc c rs.
Proof.
  intros Hc. induction rs as [|x rs IH]; intros z; cbn [fold_left qsumc]; [ring|].
  rewrite IH, cmp_sum by exact Hc. ring.
Qed.

(* the three things update_queue can do with a request *)
Definition same_dir (push : bool) (r : qreq) : bool := Bool.eqb (r_push r) push.
Definition tiny (r : qreq) : bool := Qltb (vol (r_v r)) eps.
Definition is_dust (push : bool) (r : qreq) : bool := same_dir push r && tiny r.
Definition is_due (push : bool) (r : qreq) : bool :=
  same_dir push r && negb (tiny r) && Nat.eqb (r_time r) 0.
Definition is_kept (push : bool) (r : qreq) : bool :=
  negb (same_dir push r) || (negb (tiny r) && negb (Nat.eqb (r_time r) 0)).

Lemma three_way c push rs :
  qsumc c rs == qsumc c (filter (is_kept push) rs) + qsumc c (filter (is_due push) rs)
                + qsumc c (filter (is_dust push) rs).
Proof.
  induction rs as [|r rs IH]; cbn [filter qsumc]; [ring|].
  rewrite IH. unfold is_kept at 2, is_due at 2, is_dust at 2.
  destruct (same_dir push r), (tiny r), (Nat.eqb (r_time r) 0); cbn [negb andb orb qsumc]; ring.
Qed.
Lemma dust_is_small push rs : Forall (fun r => vol (r_v r) < eps) (filter (is_dust push) rs).
Proof.
  apply Forall_forall. intros r Hr. apply filter_In in Hr. destruct Hr as [_ H].
  unfold is_dust in H. apply andb_true_iff in H. destruct H as [_ H]. apply Qltb_true. exact H.
Qed.

Section Queue.
Variable S : Type.
Variable P : port S.


(* ---------------- update_queue ---------------- *)
(* exactly the due requests are processed, exactly the kept ones stay, in order;
   delivered plus bounced is the sum of the due ones; holds for ANY far end *)
Lemma q_loop_spec push : forall rs s fout removed back rs' s' fo rm bk,
  q_update_loop S P push rs s fout removed back = (rs', s', fo, rm, bk) ->
  rs' = filter (is_kept push) rs /\
  forall c, conserved c ->
    cmp c rm + cmp c bk == cmp c removed + cmp c back + qsumc c (filter (is_due push) rs).
Proof.
  induction rs as [|r rs IH]; intros s fout removed back rs' s' fo rm bk H; cbn [q_update_loop] in H.
  - inversion H; subst. split; [reflexivity|]. intros c _. cbn [filter qsumc]. ring.
  - cbn [filter]. unfold is_kept at 1. unfold is_due at 1. unfold same_dir, tiny.
    destruct (Bool.eqb (r_push r) push) eqn:Ed; cbn [negb] in H.
    + destruct (Qltb (vol (r_v r)) eps) eqn:Et.
      * cbn [negb andb orb]. apply IH in H. exact H.
      * destruct (r_time r) as [|tm] eqn:Etm.
        -- cbn [negb andb orb Nat.eqb].
           set (v := r_v r) in *.
           assert (Hp : 0 < vol v) by (pose proof (Qltb_false _ _ Et); pose proof eps_pos; lra).
           destruct (if push then let '(s1, reply) := p_push_set P s v in (s1, vol v - vol reply, vsub v reply, reply)
                     else (s, vol v, vchange v (vol v), vchange v (vol v - vol v)))
             as [[[s1 rem] dlv] bck] eqn:Ep.
           assert (Hsplit : forall c, conserved c -> cmp c dlv + cmp c bck == cmp c v).
           { intros c Hc. destruct push.
             - destruct (p_push_set P s v) as [s2 reply]. inversion Ep; subst. rewrite cmp_sub by exact Hc. ring.
             - inversion Ep; subst. exact (change_split_pos c v (vol v) Hc Hp). }
           apply IH in H. destruct H as [H1 H2]. split; [exact H1|].
           intros c Hc. rewrite (H2 c Hc), !cmp_sum by exact Hc. cbn [qsumc]. fold v.
           pose proof (Hsplit c Hc). lra.
        -- cbn [negb andb orb Nat.eqb].
           destruct (q_update_loop S P push rs s fout removed back) as [[[[rs1 s1] fo1] rm1] bk1] eqn:El.
           inversion H; subst. destruct (IH _ _ _ _ _ _ _ _ _ El) as [H1 H2].
           split; [rewrite H1; reflexivity | exact H2].
    + cbn [negb andb orb].
      destruct (q_update_loop S P push rs s fout removed back) as [[[[rs1 s1] fo1] rm1] bk1] eqn:El.
      inversion H; subst. destruct (IH _ _ _ _ _ _ _ _ _ El) as [H1 H2].
      split; [rewrite H1; reflexivity | exact H2].
Qed.

(* ledger quantity of a queue arc: in - out - in transit - decayed *)
Definition bal (c : sel) (q : qarc) : Q :=
  cmp c (a_vin (q_a q)) - cmp c (a_vout (q_a q)) - qsumc c (q_queue q) - cmp c (q_decayed q).
Definition dec_plain (q : qarc) : Prop := q_dec q = [] /\ forall c, cmp c (q_decayed q) == 0.

Lemma q_sum_is_qsumc c q : conserved c -> cmp c (q_sum q) == qsumc c (q_queue q).
Proof. intros Hc. unfold q_sum. rewrite cmp_fold_req by exact Hc. rewrite cmp_zero. ring. Qed.

(* enter_arc + enter_queue *)
Lemma q_enter_spec q time v push c : conserved c ->
  cmp c (a_vin (q_a (q_enter q time v push))) == cmp c (a_vin (q_a q)) + cmp c v /\
  a_vout (q_a (q_enter q time v push)) = a_vout (q_a q) /\
  qsumc c (q_queue (q_enter q time v push)) + cmp c (q_decayed (q_enter q time v push))
     == qsumc c (q_queue q) + cmp c (q_decayed q) + cmp c v /\
  a_fin (q_a (q_enter q time v push)) == a_fin (q_a q) + vol v / inject_Z (Z.of_nat (time + 1)) /\
  a_cap (q_a (q_enter q time v push)) = a_cap (q_a q) /\ q_dec (q_enter q time v push) = q_dec q /\
  q_n (q_enter q time v push) = q_n q.
Proof.
  intros Hc. unfold q_enter.
  destruct (q_dec q) as [|p d] eqn:Ed.
  - cbn [q_a q_queue q_decayed a_vin a_vout a_fin a_cap q_dec q_n]. rewrite cmp_sum by exact Hc.
    rewrite qsumc_app. cbn [qsumc r_v]. rewrite !Qred_correct.
    repeat split; try reflexivity; try ring.
  - pose proof (vdecay_conserved (p :: d) (q_T q) v c Hc) as Hd.
    destruct (vdecay (p :: d) (q_T q) v) as [v' diff]. cbn [fst snd] in Hd.
    cbn [q_a q_queue q_decayed a_vin a_vout a_fin a_cap q_dec q_n]. rewrite !cmp_sum by exact Hc.
    rewrite qsumc_app. cbn [qsumc r_v]. rewrite !Qred_correct.
    repeat split; try reflexivity; try lra.
Qed.

(* ---------------- one push: the ledger moves only by dust ---------------- *)
Definition push_dropped (q : qarc) (s : S) (v : vqip) (force : bool) (time : nat) : list qreq :=
  if Qltb (vol v) eps then []
  else
    let np := if force then vzero
              else vchange v (Qmax (vol v - vol (a_excess_push S P (q_a q) s (Some v))) 0) in
    filter (is_dust true) (q_queue (q_enter q (time + q_n q) (vsub v np) true)).

Theorem q_push_ledger q s v force time c : conserved c ->
  let q' := fst (fst (q_send_push S P q s v force time)) in
  bal c q' == bal c q + qsumc c (push_dropped q s v force time).
Proof.
  intros Hc. unfold q_send_push, push_dropped.
  destruct (Qltb (vol v) eps) eqn:Et; [cbn [fst qsumc]; ring|].
  set (np := if force then vzero else vchange v (Qmax (vol v - vol (a_excess_push S P (q_a q) s (Some v))) 0)).
  set (v1 := vsub v np). set (q1 := q_enter q (time + q_n q) v1 true).
  destruct (q_enter_spec q (time + q_n q) v1 true c Hc) as (E1 & E2 & E3 & _). fold q1 in E1, E2, E3.
  unfold q_update.
  destruct (q_update_loop S P true (q_queue q1) s (a_fout (q_a q1)) vzero vzero) as [[[[rs s'] fo] rm] bk] eqn:El.
  destruct (q_loop_spec true _ _ _ _ _ _ _ _ _ _ El) as [L1 L2]. specialize (L2 c Hc).
  cbn [fst snd]. unfold bal, q_with_a.
  cbn [q_a q_queue q_decayed a_vin a_vout].
  rewrite cmp_sub, cmp_sum by exact Hc. rewrite E1, E2. rewrite !cmp_zero in L2.
  pose proof (three_way c true (q_queue q1)) as T3. rewrite <- L1 in T3. lra.
Qed.

(* what the caller gets back is the part that did not fit plus all backflow,
   and the backflow is exactly what is taken out of the inflow record *)
Theorem q_push_backflow_returned q s v time : Qltb (vol v) eps = false ->
  let np := vchange v (Qmax (vol v - vol (a_excess_push S P (q_a q) s (Some v))) 0) in
  let q1 := q_enter q (time + q_n q) (vsub v np) true in
  let back := snd (q_update S P q1 s true) in
  snd (q_send_push S P q s v false time) = vsum np back /\
  a_vin (q_a (fst (fst (q_send_push S P q s v false time)))) = vsub (a_vin (q_a q1)) back.
Proof.
  intros Et. unfold q_send_push. rewrite Et. cbn zeta. unfold q_update.
  destruct (q_update_loop S P true _ s _ vzero vzero) as [[[[rs s'] fo] rm] bk].
  cbn [fst snd q_with_a q_a a_vin]. split; reflexivity.
Qed.

(* ---------------- one pull ---------------- *)
Definition pull_dropped (q : qarc) (s : S) (v : Q) (time : nat) : list qreq :=
  let excess := vol (a_excess_pull S P (q_a q) s (Some v)) in
  let got := snd (p_pull_set P s (Qred (v - Qmax (v - excess) 0))) in
  filter (is_dust false) (q_queue (q_enter q (time + q_n q) got false)).

Theorem q_pull_ledger q s v time c : conserved c ->
  let q' := fst (fst (q_send_pull S P q s v time)) in
  let r := snd (q_send_pull S P q s v time) in
  bal c q' == bal c q + qsumc c (pull_dropped q s v time) /\
  (* what the puller receives is what left the arc *)
  cmp c (a_vout (q_a q')) == cmp c (a_vout (q_a q)) + cmp c r.
Proof.
  intros Hc. unfold q_send_pull, pull_dropped.
  set (volume := Qred (v - Qmax (v - vol (a_excess_pull S P (q_a q) s (Some v))) 0)).
  destruct (p_pull_set P s volume) as [s1 got] eqn:Eg. cbn [snd].
  set (q1 := q_enter q (time + q_n q) got false).
  destruct (q_enter_spec q (time + q_n q) got false c Hc) as (E1 & E2 & E3 & _). fold q1 in E1, E2, E3.
  unfold q_update.
  destruct (q_update_loop S P false (q_queue q1) s1 (a_fout (q_a q1)) vzero vzero) as [[[[rs s'] fo] rm] bk] eqn:El.
  destruct (q_loop_spec false _ _ _ _ _ _ _ _ _ _ El) as [L1 L2]. specialize (L2 c Hc).
  cbn [fst snd]. unfold bal. cbn [q_a q_queue q_decayed a_vin a_vout].
  rewrite cmp_sum by exact Hc. rewrite E1, E2. rewrite !cmp_zero in L2.
  pose proof (three_way c false (q_queue q1)) as T3. rewrite <- L1 in T3.
  (* pulls never bounce: bk collects the rejected part, which is vchange v 0 *)
  split; [|ring].
  assert (Hbk : cmp c bk == 0).
  { clear -El Hc. revert El. generalize (a_fout (q_a q1)). generalize s1.
    assert (G : forall rs0 s0 f0 rm0 bk0 rs9 s9 fo9 rm9 bk9,
              q_update_loop S P false rs0 s0 f0 rm0 bk0 = (rs9, s9, fo9, rm9, bk9) -> cmp c bk9 == cmp c bk0).
    { induction rs0 as [|r rs0 IH]; intros s0 f0 rm0 bk0 rs9 s9 fo9 rm9 bk9 H; cbn [q_update_loop] in H.
      - inversion H; subst; reflexivity.
      - destruct (negb (Bool.eqb (r_push r) false)).
        + destruct (q_update_loop S P false rs0 s0 f0 rm0 bk0) as [[[[a1 b1] c1] d1] e1] eqn:E.
          inversion H; subst. eapply IH; exact E.
        + destruct (Qltb (vol (r_v r)) eps) eqn:Et; [eapply IH; exact H|].
          destruct (r_time r).
          * apply IH in H. rewrite H, cmp_sum by exact Hc.
            assert (Hp : 0 < vol (r_v r)) by (pose proof (Qltb_false _ _ Et); pose proof eps_pos; lra).
            rewrite cmp_change_pos by assumption. field. lra.
          * destruct (q_update_loop S P false rs0 s0 f0 rm0 bk0) as [[[[a1 b1] c1] d1] e1] eqn:E.
            inversion H; subst. eapply IH; exact E. }
    intros s2 f2 El. rewrite (G _ _ _ _ _ _ _ _ _ _ El). apply cmp_zero. }
  lra.
Qed.

(* ---------------- close-out ---------------- *)
Lemma q_dec1_spec d T r acc c : conserved c ->
  let r' := fst (q_dec1 d T r acc) in let acc' := snd (q_dec1 d T r acc) in
  r_time r' = pred (r_time r) /\ r_push r' = r_push r /\
  cmp c (r_v r') + cmp c acc' == cmp c (r_v r) + cmp c acc /\
  (d = [] -> acc' = acc /\ r_v r' = r_v r).
Proof.
  intros Hc. unfold q_dec1. destruct d as [|p d'].
  - cbn [fst snd r_time r_push r_v]. repeat split; reflexivity.
  - pose proof (vdecay_conserved (p :: d') T (r_v r) c Hc) as Hd.
    destruct (vdecay (p :: d') T (r_v r)) as [v' diff]. cbn [fst snd r_time r_push r_v] in *.
    rewrite cmp_sum by exact Hc.
    split; [reflexivity|]. split; [reflexivity|]. split; [lra|]. intros Habs; discriminate.
Qed.
Lemma q_end_fold_spec d T c : conserved c -> forall rs acc0 rs0,
  let res := q_end_fold d T rs (rs0, acc0) in
  qsumc c (fst res) + cmp c (snd res) == qsumc c rs0 + cmp c acc0 + qsumc c rs /\
  map r_time (fst res) = map r_time rs0 ++ map (fun r => pred (r_time r)) rs /\
  map r_push (fst res) = map r_push rs0 ++ map r_push rs /\
  (d = [] -> snd res = acc0 /\ map r_v (fst res) = map r_v rs0 ++ map r_v rs).
Proof.
  intros Hc. unfold q_end_fold. induction rs as [|r rs IH]; intros acc0 rs0; cbn [fold_left].
  - cbn [fst snd qsumc map]. rewrite !app_nil_r. repeat split; try reflexivity. ring.
  - destruct (q_dec1_spec d T r acc0 c Hc) as (D1 & D2 & D3 & D4).
    destruct (q_dec1 d T r acc0) as [r' acc'] eqn:E1. cbn [fst snd] in D1, D2, D3, D4.
    specialize (IH acc' (rs0 ++ [r'])). cbn zeta in IH. destruct IH as (I1 & I2 & I3 & I4).
    rewrite I1, I2, I3, qsumc_app, !map_app. cbn [qsumc map]. rewrite D1, D2. rewrite <- !app_assoc. cbn [app].
    split; [lra|]. split; [reflexivity|]. split; [reflexivity|]. intros Hd.
    destruct (I4 Hd) as [J1 J2]. destruct (D4 Hd) as [K1 K2].
    split; [congruence|]. rewrite J2, map_app. cbn [map]. rewrite K2, <- app_assoc. reflexivity.
Qed.

Theorem q_end_spec q c : conserved c ->
  (* records are reset, the queue keeps its order, every remaining time drops by one (not below 0) *)
  a_vin (q_a (q_end q)) = vzero /\ a_vout (q_a (q_end q)) = vzero /\
  a_fin (q_a (q_end q)) = 0 /\ a_fout (q_a (q_end q)) = 0 /\ a_cap (q_a (q_end q)) = a_cap (q_a q) /\
  map r_time (q_queue (q_end q)) = map (fun r => pred (r_time r)) (q_queue q) /\
  map r_push (q_queue (q_end q)) = map r_push (q_queue q) /\
  (* decay at close-out is reported in the next timestep's total_decayed *)
  (q_dec q <> [] -> qsumc c (q_queue (q_end q)) + cmp c (q_decayed (q_end q)) == qsumc c (q_queue q)) /\
  (q_dec q = [] -> map r_v (q_queue (q_end q)) = map r_v (q_queue q) /\ q_decayed (q_end q) = q_decayed q) /\
  (* the lagged in-transit figure is the one the balance call computed *)
  q_qs_ (q_end q) = q_qs q.
Proof.
  intros Hc. unfold q_end.
  pose proof (q_end_fold_spec (q_dec q) (q_T q) c Hc (q_queue q) vzero []) as H. cbn zeta in H.
  destruct (q_end_fold (q_dec q) (q_T q) (q_queue q) ([], vzero)) as [rs tot] eqn:Ef. cbn [fst snd qsumc map app] in H. destruct H as (H1 & H2 & H3 & H4).
  cbn [q_a q_queue q_decayed q_qs_ a_end a_vin a_vout a_fin a_fout a_cap].
  split; [reflexivity|]. split; [reflexivity|]. split; [reflexivity|]. split; [reflexivity|]. split; [reflexivity|].
  split; [exact H2|]. split; [exact H3|].
  split. { intros Hne. destruct (q_dec q) as [|p d]; [congruence|]. rewrite cmp_zero in H1. lra. }
  split. { intros He. destruct (H4 He) as [J1 J2]. split; [exact J2|]. rewrite He. reflexivity. }
  reflexivity.
Qed.

Corollary q_end_ledger q c : conserved c ->
  (q_dec q = [] -> cmp c (q_decayed q) == 0) ->
  bal c (q_end q) == - qsumc c (q_queue q).
Proof.
  intros Hc Hz. destruct (q_end_spec q c Hc) as (E1 & E2 & _ & _ & _ & _ & _ & E8 & E9 & _).
  unfold bal. rewrite E1, E2, !cmp_zero.
  destruct (q_dec q) as [|p d] eqn:Ed.
  - destruct (E9 eq_refl) as [J1 J2]. rewrite J2, (Hz eq_refl).
    assert (Hq : forall a b, map r_v a = map r_v b -> qsumc c a == qsumc c b).
    { induction a as [|x a IH]; intros [|y b] Hm; cbn [map] in Hm; try discriminate; [reflexivity|].
      inversion Hm as [[Hx Hr]]. cbn [qsumc]. rewrite Hx, (IH b Hr). reflexivity. }
    rewrite (Hq _ _ J1). ring.
  - assert (Hne : p :: d <> []) by discriminate. specialize (E8 Hne). lra.
Qed.

(* ---------------- admission against contract-respecting ends ---------------- *)
Variable K : contract S P.

Definition qarc_ok (q : qarc) : Prop :=
  0 <= a_fin (q_a q) <= a_cap (q_a q) /\ Forall (fun r => r_push r = true -> wet (r_v r)) (q_queue q) /\ q_dec q = [].

Lemma q_loop_ok push : forall rs s fout removed back rs' s' fo rm bk,
  q_update_loop S P push rs s fout removed back = (rs', s', fo, rm, bk) ->
  okS S P K s -> Forall (fun r => r_push r = true -> wet (r_v r)) rs -> okS S P K s'.
Proof.
  induction rs as [|r rs IH]; intros s fout removed back rs' s' fo rm bk H Hs Hw; cbn [q_update_loop] in H.
  - inversion H; subst; exact Hs.
  - inversion Hw as [|r0 l0 Hr Hl]; subst.
    destruct (Bool.eqb (r_push r) push) eqn:Ed; cbn [negb] in H.
    + destruct (Qltb (vol (r_v r)) eps); [eapply IH; eassumption|].
      destruct (r_time r).
      * destruct push.
        -- apply eqb_prop in Ed. destruct (c_push_set S P K s (r_v r) Hs (Hr Ed)) as (C1 & _).
           destruct (p_push_set P s (r_v r)) as [s1 rep]. cbn [fst] in C1. eapply IH; eassumption.
        -- eapply IH; eassumption.
      * destruct (q_update_loop S P push rs s fout removed back) as [[[[a1 b1] c1] d1] e1] eqn:E.
        inversion H; subst. eapply IH; eassumption.
    + destruct (q_update_loop S P push rs s fout removed back) as [[[[a1 b1] c1] d1] e1] eqn:E.
      inversion H; subst. eapply IH; eassumption.
Qed.

Lemma filter_Forall {A} (Pr : A -> Prop) f l : Forall Pr l -> Forall Pr (filter f l).
Proof.
  intros H. apply Forall_forall. intros x Hx. apply filter_In in Hx. destruct Hx as [Hx _].
  apply (proj1 (Forall_forall _ _) H). exact Hx.
Qed.

Theorem q_push_admission q s v time : qarc_ok q -> okS S P K s -> wet v ->
  let q' := fst (fst (q_send_push S P q s v false time)) in
  let s' := snd (fst (q_send_push S P q s v false time)) in
  qarc_ok q' /\ okS S P K s' /\ a_cap (q_a q') = a_cap (q_a q) /\ a_fin (q_a q) <= a_fin (q_a q').
Proof.
  intros (Hf & Hq & Hd) Hs Hw. unfold q_send_push.
  destruct (Qltb (vol v) eps) eqn:Et; [cbn [fst snd]; repeat split; try assumption; try reflexivity; lra|].
  set (E := vol (a_excess_push S P (q_a q) s (Some v))).
  assert (HE : 0 <= E <= a_cap (q_a q) - a_fin (q_a q)).
  { unfold E. rewrite excess_push_vol. pose proof (c_push_check S P K s (Some v) Hs (proj1 Hw SVol I)).
    split; [apply Q.min_glb; lra | apply Q.le_min_l]. }
  set (x := Qmax (vol v - E) 0).
  pose proof (proj1 Hw SVol I) as Hv; cbn [cmp] in Hv.
  assert (Hx : 0 <= x <= vol v) by (unfold x; split; [apply Q.le_max_r | apply Q.max_lub; lra]).
  set (v1 := vsub v (vchange v x)).
  assert (Wv1 : wet v1) by (apply wet_rest; assumption).
  assert (Vv1 : 0 <= vol v1 <= E).
  { unfold v1. rewrite vol_sub, vol_change. unfold x in *.
    destruct (Q.max_spec (vol v - E) 0) as [[H0 H]|[H0 H]]; rewrite H in *; lra. }
  destruct (q_enter_spec q (time + q_n q) v1 true SVol I) as (_ & _ & _ & F1 & F2 & F3 & _).
  assert (Hq1 : Forall (fun r => r_push r = true -> wet (r_v r)) (q_queue (q_enter q (time + q_n q) v1 true))).
  { unfold q_enter. rewrite Hd. cbn [q_queue]. apply Forall_app. split; [exact Hq|].
    constructor; [intros _; exact Wv1 | constructor]. }
  remember (q_enter q (time + q_n q) v1 true) as q1 eqn:Eq1.
  unfold q_update.
  destruct (q_update_loop S P true (q_queue q1) s (a_fout (q_a q1)) vzero vzero) as [[[[rs s'] fo] rm] bk] eqn:El.
  destruct (q_loop_spec true _ _ _ _ _ _ _ _ _ _ El) as [L1 _].
  pose proof (q_loop_ok true _ _ _ _ _ _ _ _ _ _ El Hs Hq1) as Hs'.
  cbn [fst snd]. unfold q_with_a, qarc_ok. cbn [q_a q_queue q_dec a_fin a_cap].
  assert (Hdiv : 0 <= vol v1 / inject_Z (Z.of_nat (time + q_n q + 1)) <= vol v1).
  { assert (Hden : 1 <= inject_Z (Z.of_nat (time + q_n q + 1))) by (rewrite <- (Zle_Qle 1); lia).
    split; [apply Qle_shift_div_l; lra | apply Qle_shift_div_r; [lra|]]. nra. }
  rewrite F1, F2, F3, L1.
  split; [split; [lra | split; [apply filter_Forall; exact Hq1 | exact Hd]]|].
  split; [exact Hs'|]. split; [reflexivity | lra].
Qed.

Theorem q_pull_admission q s v time : qarc_ok q -> okS S P K s -> 0 <= v ->
  let q' := fst (fst (q_send_pull S P q s v time)) in
  let s' := snd (fst (q_send_pull S P q s v time)) in
  qarc_ok q' /\ okS S P K s' /\ a_cap (q_a q') = a_cap (q_a q) /\ a_fin (q_a q) <= a_fin (q_a q').
Proof.
  intros (Hf & Hq & Hd) Hs Hv. unfold q_send_pull.
  set (E := vol (a_excess_pull S P (q_a q) s (Some v))).
  assert (HE : 0 <= E <= a_cap (q_a q) - a_fin (q_a q)).
  { unfold E. rewrite excess_pull_vol. pose proof (c_pull_check S P K s (Some v) Hs Hv).
    split; [apply Q.min_glb; lra | apply Q.le_min_l]. }
  set (volume := v - Qmax (v - E) 0).
  assert (Hvol : 0 <= volume <= E).
  { unfold volume. destruct (Q.max_spec (v - E) 0) as [[H0 H]|[H0 H]]; rewrite H; lra. }
  assert (Hv' : 0 <= Qred volume) by (rewrite Qred_correct; lra).
  destruct (c_pull_set S P K s (Qred volume) Hs Hv') as (C1 & C2 & C3 & _).
  destruct (p_pull_set P s (Qred volume)) as [s1 got] eqn:Eg. cbn [fst snd] in C1, C2, C3.
  rewrite Qred_correct in C3. pose proof (C2 SVol I) as G0; cbn [cmp] in G0.
  destruct (q_enter_spec q (time + q_n q) got false SVol I) as (_ & _ & _ & F1 & F2 & F3 & _).
  assert (Hq1 : Forall (fun r => r_push r = true -> wet (r_v r)) (q_queue (q_enter q (time + q_n q) got false))).
  { unfold q_enter. rewrite Hd. cbn [q_queue]. apply Forall_app. split; [exact Hq|].
    constructor; [cbn [r_push]; intros Habs; discriminate | constructor]. }
  remember (q_enter q (time + q_n q) got false) as q1 eqn:Eq1.
  unfold q_update.
  destruct (q_update_loop S P false (q_queue q1) s1 (a_fout (q_a q1)) vzero vzero) as [[[[rs s'] fo] rm] bk] eqn:El.
  destruct (q_loop_spec false _ _ _ _ _ _ _ _ _ _ El) as [L1 _].
  pose proof (q_loop_ok false _ _ _ _ _ _ _ _ _ _ El C1 Hq1) as Hs'.
  cbn [fst snd]. unfold qarc_ok. cbn [q_a q_queue q_dec a_fin a_cap].
  assert (Hdiv : 0 <= vol got / inject_Z (Z.of_nat (time + q_n q + 1)) <= vol got).
  { assert (Hden : 1 <= inject_Z (Z.of_nat (time + q_n q + 1))) by (rewrite <- (Zle_Qle 1); lia).
    split; [apply Qle_shift_div_l; lra | apply Qle_shift_div_r; [lra|]]. nra. }
  rewrite F1, F2, F3, L1.
  split; [split; [lra | split; [apply filter_Forall; exact Hq1 | exact Hd]]|].
  split; [exact Hs'|]. split; [reflexivity | lra].
Qed.

Lemma q_end_ok q : qarc_ok q -> qarc_ok (q_end q).
Proof.
  intros (Hf & Hq & Hd). destruct (q_end_spec q SVol I) as (_ & _ & E3 & _ & E5 & _ & E7 & _ & E9 & _).
  unfold qarc_ok. rewrite E3, E5. destruct (E9 Hd) as [J1 _].
  split; [lra|]. split.
  - (* same fluxes, same directions, in the same order *)
    assert (G : forall a b, map r_v a = map r_v b -> map r_push a = map r_push b ->
                Forall (fun r => r_push r = true -> wet (r_v r)) b ->
                Forall (fun r => r_push r = true -> wet (r_v r)) a).
    { induction a as [|x a IH]; intros [|y b] M1 M2 Hb; cbn [map] in *; try discriminate; [constructor|].
      inversion M1 as [[X1 X2]]. inversion M2 as [[Y1 Y2]]. inversion Hb as [|? ? Hy Hb']; subst.
      constructor; [rewrite X1, Y1; exact Hy | eapply IH; eassumption]. }
    exact (G _ _ J1 E7 Hq).
  - unfold q_end. destruct (q_end_fold _ _ _ _). cbn [q_dec]. exact Hd.
Qed.

(* every admissible operation sequence on a (non-decaying) queue arc *)
Definition qarc_run (st : qarc * S) (ops : list aop) : qarc * S :=
  fold_left (fun st o => fst (qarc_do S P (fst st) (snd st) o)) ops st.
Theorem qarc_run_inv ops : forall q s, Forall op_ok ops -> okS S P K s -> qarc_ok q ->
  qarc_ok (fst (qarc_run (q, s) ops)) /\ okS S P K (snd (qarc_run (q, s) ops)) /\
  a_cap (q_a (fst (qarc_run (q, s) ops))) = a_cap (q_a q).
Proof.
  induction ops as [|o ops IH]; intros q s Hf Hs Hq; cbn [qarc_run fold_left].
  - split; [exact Hq | split; [exact Hs | reflexivity]].
  - inversion Hf as [|o' l' Ho Hl]; subst.
    assert (Step : qarc_ok (fst (fst (qarc_do S P q s o))) /\ okS S P K (snd (fst (qarc_do S P q s o))) /\
                   a_cap (q_a (fst (fst (qarc_do S P q s o)))) = a_cap (q_a q)).
    { destruct o as [v f t|x t|ov|ov| | |T]; cbn [qarc_do].
      - destruct Ho as [Hw Hff]; subst f.
        destruct (q_push_admission q s v t Hq Hs Hw) as (A1 & A2 & A3 & _). split; [exact A1 | split; [exact A2 | exact A3]].
      - cbn in Ho. destruct (q_pull_admission q s x t Hq Hs Ho) as (A1 & A2 & A3 & _).
        split; [exact A1 | split; [exact A2 | exact A3]].
      - cbn [fst snd]. split; [exact Hq | split; [exact Hs | reflexivity]].
      - cbn [fst snd]. split; [exact Hq | split; [exact Hs | reflexivity]].
      - cbn [fst snd]. split; [apply q_end_ok; exact Hq | split; [exact Hs|]].
        destruct (q_end_spec q SVol I) as (_ & _ & _ & _ & E5 & _). exact E5.
      - unfold q_ds. cbn [fst snd]. destruct Hq as (H1 & H2 & H3). split; [split; [exact H1 | split; [exact H2 | exact H3]] | split; [exact Hs | reflexivity]].
      - cbn [fst snd]. destruct Hq as (H1 & H2 & H3). unfold q_set_T, qarc_ok. cbn [q_a q_queue q_dec].
        split; [split; [exact H1 | split; [exact H2 | exact H3]] | split; [exact Hs | reflexivity]]. }
    destruct Step as (S1 & S2 & S3). cbn [fst snd].
    destruct (qarc_do S P q s o) as [[q1 s1] r1]. cbn [fst snd] in *.
    destruct (IH q1 s1 Hl S2 S1) as (I1 & I2 & I3). fold (qarc_run (q1, s1) ops).
    split; [exact I1 | split; [exact I2 | congruence]].
Qed.
Corollary qarc_admission_every_prefix ops n q s : Forall op_ok ops -> okS S P K s -> qarc_ok q ->
  let q' := fst (qarc_run (q, s) (firstn n ops)) in 0 <= a_fin (q_a q') <= a_cap (q_a q).
Proof.
  intros Hf Hs Hq. destruct (qarc_run_inv (firstn n ops) q s (Forall_firstn _ n ops Hf) Hs Hq) as ((H1 & _) & _ & H3).
  cbn. rewrite <- H3. exact H1.
Qed.
End Queue.
