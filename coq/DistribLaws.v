(* DistribLaws.v — laws of Node.push_distributed / pull_distributed (Distrib.v)
   on a star of plain arcs whose far ends respect the reply contract and answer
   wet offers with wet remainders:
   - never more than asked: 0 <= not_pushed <= offer component-wise, pulled volume <= asked;
   - the pieces recorded on the individual arcs add up to what the node reports;
   - arcs whose neighbour type is filtered out are not touched at all;
   - a shortfall is announced: when the loop stops before the iteration limit, either the
     request is met (within FLOAT_ACCURACY) or nothing more is feasible (within FLOAT_ACCURACY);
   - every arc stays within capacity, every end keeps its invariant.
   For any fan-out, any capacities and preferences >= 0, any iteration limit. *)
From Coq Require Import QArith Qminmax Lqa Lia List Bool Arith Setoid Morphisms.
From WSI Require Import Vqip Pow Enc Tank Arc QTank Distrib Run TankLaws ArcLaws QueueLaws.
Import ListNotations.
Open Scope Q_scope.

Section StarLaws.
Variable S : Type.
Variable P : port S.
Variable K : contract S P.
(* receivers answer wet offers with wet remainders (no pollutant mass without water) *)
Hypothesis wet_replies : forall s v, okS S P K s -> wet v ->
  forall k, vol (snd (p_push_set P s v)) <= 0 -> get (adds (snd (p_push_set P s v))) k == 0.

Notation sarc := (sarc S).
Notation star := (star S).

Definition sarc_ok (x : sarc) : Prop := arc_ok (sa_a S x) /\ okS S P K (sa_s S x) /\ 0 <= sa_pref S x.
Definition star_ok (st : star) : Prop := Forall sarc_ok st.
Definition sumvin (c : sel) (st : star) : Q := fold_right (fun x acc => cmp c (a_vin (sa_a S x)) + acc) 0 st.

(* the reply of a plain arc to a wet offer is wet *)
Lemma a_push_reply_wet a s v : okS S P K s -> wet v -> arc_ok a ->
  wet (snd (a_send_push S P a s v false)).
Proof.
  intros Hs Hw Ha. destruct (a_push_spec S P K a s v Hs Hw Ha) as (_ & _ & R & _).
  split; [intros c Hc; apply (R c Hc)|].
  intros Hv k. destruct (push_unfold S P a s v) as (_ & _ & Er). rewrite Er in *.
  set (E := vol (a_excess_push S P a s (Some v))) in *. set (x := Qmax (vol v - E) 0) in *.
  set (np := vchange v x) in *. set (v1 := vsub v np) in *. set (res := p_push_set P s v1) in *.
  pose proof (push_x_range S P K a s v Hs Hw Ha) as Hx. fold E in Hx. fold x in Hx.
  pose proof (push_v1_wet S P K a s v Hs Hw Ha) as Wv1. fold E in Wv1. fold x in Wv1. fold np in Wv1. fold v1 in Wv1.
  destruct (c_push_set S P K s v1 Hs Wv1) as (_ & C2 & _). fold res in C2.
  pose proof (C2 SVol I) as R0; cbn [cmp] in R0.
  rewrite vol_sum in Hv. unfold np in Hv at 1. rewrite vol_change in Hv.
  assert (Hx0 : x == 0) by lra. assert (Hr0 : vol (snd res) <= 0) by lra.
  rewrite add_sum. pose proof (wet_replies s v1 Hs Wv1 k) as Hwr. fold res in Hwr. rewrite (Hwr Hr0).
  pose proof (wet_part v x Hw Hx) as [_ Hd]. fold np in Hd.
  rewrite (Hd ltac:(unfold np; rewrite vol_change; lra) k). ring.
Qed.

Lemma sumq_nonneg l : Forall (fun w => 0 <= w) l -> 0 <= sumq l.
Proof. induction 1 as [|w l Hw _ IH]; cbn [sumq fold_right]; [lra|]. fold (sumq l). lra. Qed.

(* what a distribution leaves alone: types, preferences, capacities; arcs filtered out entirely *)
Definition frame (ot : option (list nat)) (x x' : sarc) : Prop :=
  sa_ty S x' = sa_ty S x /\ sa_pref S x' = sa_pref S x /\ a_cap (sa_a S x') = a_cap (sa_a S x) /\
  (selected S ot x = false -> x' = x).
Definition pframe (ot : option (list nat)) (x x' : sarc) : Prop :=
  sa_ty S x' = sa_ty S x /\ (selected S ot x = false -> x' = x).
Lemma selected_ty ot x y : sa_ty S y = sa_ty S x -> selected S ot y = selected S ot x.
Proof. intros E. unfold selected. destruct ot; [rewrite E|]; reflexivity. Qed.
Lemma frame_refl ot st : Forall2 (frame ot) st st.
Proof. induction st; constructor; [repeat split; reflexivity | assumption]. Qed.
Lemma pframe_refl ot st : Forall2 (pframe ot) st st.
Proof. induction st; constructor; [split; reflexivity | assumption]. Qed.
Lemma frame_trans ot st st1 : Forall2 (frame ot) st st1 -> forall st2, Forall2 (frame ot) st1 st2 -> Forall2 (frame ot) st st2.
Proof.
  induction 1 as [|x y l l' Hxy Hl IH]; intros st2 H2; inversion H2 as [|y' z l1 l2 Hyz Hl2]; subst; constructor; [|apply IH; exact Hl2].
  destruct Hxy as (a1 & a2 & a3 & a4). destruct Hyz as (b1 & b2 & b3 & b4).
  split; [congruence|]. split; [congruence|]. split; [congruence|].
  intros Hsel. transitivity y; [apply b4; rewrite (selected_ty ot x y a1); exact Hsel | apply a4; exact Hsel].
Qed.
Lemma pframe_trans ot st st1 : Forall2 (pframe ot) st st1 -> forall st2, Forall2 (pframe ot) st1 st2 -> Forall2 (pframe ot) st st2.
Proof.
  induction 1 as [|x y l l' Hxy Hl IH]; intros st2 H2; inversion H2 as [|y' z l1 l2 Hyz Hl2]; subst; constructor; [|apply IH; exact Hl2].
  destruct Hxy as (a1 & a4). destruct Hyz as (b1 & b4). split; [congruence|].
  intros Hsel. transitivity y; [apply b4; rewrite (selected_ty ot x y a1); exact Hsel | apply a4; exact Hsel].
Qed.

(* ---------------- one round of push_distributed ---------------- *)
(* shares: the volumes offered to the selected arcs *)
Fixpoint shares (ot : option (list nat)) (st : star) (al : list Q) (amount prio : Q) : Q :=
  match st, al with
  | x :: r, w :: al' => (if selected S ot x then amount * w / prio else 0) + shares ot r al' amount prio
  | _, _ => 0
  end.

Lemma push_round_spec ot amount prio : 0 <= amount -> 0 < prio ->
  forall st al np, star_ok st -> wet np -> Forall (fun w => 0 <= w) al ->
  shares ot st al amount prio <= vol np ->
  let st' := fst (push_round S P ot st al amount prio np) in
  let np' := snd (push_round S P ot st al amount prio np) in
  star_ok st' /\ wet np' /\ length st' = length st /\
  (forall c, conserved c -> 0 <= cmp c np' <= cmp c np) /\
  (forall c, conserved c -> sumvin c st' == sumvin c st + (cmp c np - cmp c np')) /\
  vol np - shares ot st al amount prio <= vol np' /\
  Forall2 (frame ot) st st'.
Proof.
  intros Ham Hpr. induction st as [|x st IH]; intros al np Hok Hw Hal Hsh.
  - cbn. split; [constructor|]. split; [exact Hw|]. split; [reflexivity|].
    split; [intros c Hc; pose proof (proj1 Hw c Hc); lra|]. split; [intros; ring|]. split; [lra | constructor].
  - destruct al as [|w al].
    + cbn. split; [exact Hok|]. split; [exact Hw|]. split; [reflexivity|].
      split; [intros c Hc; pose proof (proj1 Hw c Hc); lra|]. split; [intros; ring|]. split; [lra|].
      apply frame_refl.
    + inversion Hok as [|x0 l0 Hx Hst]; subst. inversion Hal as [|w0 l1 Hw0 Hal']; subst.
      cbn [push_round shares] in *.
      destruct (selected S ot x) eqn:Esel.
      * set (share := amount * w / prio) in *.
        assert (Hs0 : 0 <= share) by (unfold share; apply Qle_shift_div_l; [lra | nra]).
        assert (Hrest : 0 <= shares ot st al amount prio).
        { clear -Ham Hpr Hal'. revert al Hal'. induction st as [|y st IHs]; intros al Hal'; destruct al as [|w' al]; cbn [shares]; try lra.
          inversion Hal'; subst. specialize (IHs al H2).
          assert (0 <= amount * w' / prio) by (apply Qle_shift_div_l; [lra | nra]).
          destruct (selected S ot y); lra. }
        pose proof (proj1 Hw SVol I) as Hv0; cbn [cmp] in Hv0.
        assert (Hshare : 0 <= share <= vol np) by lra.
        set (to_send := vchange np share).
        assert (Wts : wet to_send) by (apply wet_part; assumption).
        destruct Hx as (Ha & Hs & Hp).
        destruct (a_push_spec S P K (sa_a S x) (sa_s S x) to_send Hs Wts Ha) as (A1 & A2 & A3 & A4 & _ & _ & _ & A8).
        pose proof (a_push_reply_wet (sa_a S x) (sa_s S x) to_send Hs Wts Ha) as Wr.
        destruct (a_send_push S P (sa_a S x) (sa_s S x) to_send false) as [[a' s'] reply] eqn:Esend.
        cbn [fst snd] in A1, A2, A3, A4, A8, Wr.
        set (np1 := vsub np (vsub to_send reply)).
        assert (Hts : forall c, conserved c -> 0 <= cmp c to_send <= cmp c np).
        { intros c Hc. apply change_within; [exact Hc | exact (proj1 Hw) | exact Hshare | exact (proj2 Hw)]. }
        assert (Hnp1 : forall c, conserved c -> cmp c np1 == cmp c np - (cmp c to_send - cmp c reply)).
        { intros c Hc. unfold np1. rewrite !cmp_sub by exact Hc. ring. }
        assert (Vts : vol to_send == share) by (unfold to_send; apply vol_change).
        assert (Wnp1 : wet np1).
        { split.
          - intros c Hc. rewrite (Hnp1 c Hc). pose proof (Hts c Hc). pose proof (A3 c Hc). lra.
          - intros Hv k. pose proof (Hnp1 SVol I) as H0; cbn [cmp] in H0.
            pose proof (A3 SVol I) as R0; cbn [cmp] in R0. rewrite H0, Vts in Hv.
            assert (Es : share == vol np) by lra. assert (Er : vol reply <= 0) by lra.
            pose proof (Hnp1 (SAdd k) I) as Hk; cbn [cmp] in Hk. rewrite Hk.
            rewrite (proj2 Wr Er k).
            destruct (Qlt_le_dec 0 (vol np)) as [Hpos|Hz].
            + unfold to_send. rewrite add_change_pos by exact Hpos. rewrite Es. field. lra.
            + unfold to_send. rewrite add_change_dry by exact Hz. rewrite (proj2 Hw Hz k). ring. }
        assert (Hsh1 : shares ot st al amount prio <= vol np1).
        { pose proof (Hnp1 SVol I) as H0; cbn [cmp] in H0. pose proof (A3 SVol I) as R0; cbn [cmp] in R0.
          rewrite H0, Vts. lra. }
        specialize (IH al np1 Hst Wnp1 Hal' Hsh1). cbn zeta in IH.
        destruct (push_round S P ot st al amount prio np1) as [r' np''] eqn:Erec. cbn [fst snd] in *.
        destruct IH as (I1 & I2 & I3 & I4 & I5 & I6 & I7).
        split; [constructor; [split; [exact A2 | split; [exact A1 | exact Hp]] | exact I1]|].
        split; [exact I2|]. split; [cbn [length]; congruence|].
        split.
        { intros c Hc. pose proof (I4 c Hc). pose proof (Hnp1 c Hc). pose proof (Hts c Hc). pose proof (A3 c Hc). lra. }
        split.
        { intros c Hc. cbn [sumvin fold_right sa_a]. fold (sumvin c r'). fold (sumvin c st).
          rewrite (I5 c Hc), (A4 c Hc), (Hnp1 c Hc). ring. }
        split.
        { pose proof (Hnp1 SVol I) as H0; cbn [cmp] in H0. pose proof (A3 SVol I) as R0; cbn [cmp] in R0. lra. }
        constructor; [|exact I7]. unfold frame. cbn [sa_ty sa_pref sa_a].
        split; [reflexivity|]. split; [reflexivity|]. split; [exact A8|]. intros Habs; congruence.
      * assert (Hsh1 : shares ot st al amount prio <= vol np) by lra.
        specialize (IH al np Hst Hw Hal' Hsh1). cbn zeta in IH.
        destruct (push_round S P ot st al amount prio np) as [r' np''] eqn:Erec. cbn [fst snd] in *.
        destruct IH as (I1 & I2 & I3 & I4 & I5 & I6 & I7).
        split; [constructor; [exact Hx | exact I1]|]. split; [exact I2|]. split; [cbn [length]; congruence|].
        split; [exact I4|].
        split; [intros c Hc; cbn [sumvin fold_right]; fold (sumvin c r'); fold (sumvin c st); rewrite (I5 c Hc); ring|].
        split; [lra|]. constructor; [repeat split; reflexivity | exact I7].
Qed.

(* the shares of a round add up to amount * (sum of allocations) / priority *)
Lemma shares_le ot amount prio : 0 <= amount -> 0 < prio -> forall st al,
  Forall (fun w => 0 <= w) al -> shares ot st al amount prio <= amount * sumq al / prio.
Proof.
  intros Ham Hpr. induction st as [|x st IH]; intros al Hal; destruct al as [|w al]; cbn [shares sumq fold_right].
  - unfold Qdiv; rewrite Qmult_0_r, Qmult_0_l; lra.
  - inversion Hal; subst. pose proof (sumq_nonneg al H2). fold (sumq al). apply Qle_shift_div_l; [lra | nra].
  - unfold Qdiv; rewrite Qmult_0_r, Qmult_0_l; lra.
  - inversion Hal as [|w0 l0 Hw0 Hal']; subst. specialize (IH al Hal'). fold (sumq al).
    assert (E : amount * (w + sumq al) / prio == amount * w / prio + amount * sumq al / prio) by (field; lra).
    rewrite E. assert (0 <= amount * w / prio) by (apply Qle_shift_div_l; [lra | nra]).
    destruct (selected S ot x); lra.
Qed.

(* availabilities and allocations computed by get_connected are non-negative *)
Lemma avail1_nonneg push ot x : 0 <= avail1 S P push ot x.
Proof.
  unfold avail1. destruct (selected S ot x); [|lra].
  destruct push.
  - destruct (Qltb (vol (a_excess_push S P (sa_a S x) (sa_s S x) None)) eps) eqn:E; [lra|].
    rewrite Qred_correct. pose proof (Qltb_false _ _ E). pose proof eps_pos. lra.
  - destruct (Qltb (vol (a_excess_pull S P (sa_a S x) (sa_s S x) None)) eps) eqn:E; [lra|].
    rewrite Qred_correct. pose proof (Qltb_false _ _ E). pose proof eps_pos. lra.
Qed.
Lemma avails_nonneg push ot st : Forall (fun w => 0 <= w) (avails S P push ot st).
Proof. unfold avails. apply Forall_forall. intros w Hw. apply in_map_iff in Hw. destruct Hw as (x & E & _). subst. apply avail1_nonneg. Qed.
Lemma allocs_nonneg push ot st : star_ok st -> Forall (fun w => 0 <= w) (allocs S P push ot st).
Proof.
  intros Hok. unfold allocs. apply Forall_forall. intros w Hw. apply in_map_iff in Hw. destruct Hw as (x & E & Hin). subst.
  rewrite Qred_correct. pose proof (avail1_nonneg push ot x).
  pose proof (proj1 (Forall_forall _ _) Hok x Hin) as (_ & _ & Hp). nra.
Qed.

(* a "connected" record whose allocations are non-negative and sum to its priority *)
Definition conn_ok (c : conn) : Prop :=
  Forall (fun w => 0 <= w) (c_alloc c) /\ c_prio c == sumq (c_alloc c) /\ 0 <= c_prio c.
Lemma get_connected_ok push ot st : star_ok st -> conn_ok (get_connected S P push ot st).
Proof.
  intros Hok. unfold conn_ok, get_connected; cbn [c_alloc c_prio]. pose proof (allocs_nonneg push ot st Hok) as H.
  split; [exact H|]. rewrite Qred_correct. split; [reflexivity | apply sumq_nonneg; exact H].
Qed.

(* ---------------- the redistribution loop ---------------- *)
Theorem push_loop_spec ot : forall fuel st np c iter res,
  star_ok st -> wet np -> conn_ok c ->
  push_loop S P fuel ot st np c iter = Some res ->
  let st' := fst (fst res) in let np' := snd (fst res) in let iter' := snd res in
  star_ok st' /\ wet np' /\ length st' = length st /\
  (forall k, conserved k -> 0 <= cmp k np' <= cmp k np) /\
  (forall k, conserved k -> sumvin k st' == sumvin k st + (cmp k np - cmp k np')) /\
  Forall2 (frame ot) st st' /\
  (iter <= iter' <= iter + fuel)%nat /\
  (* stopped before the limit: the request is met or nothing more is feasible *)
  ((iter' < iter + fuel)%nat ->
     vol np' <= eps \/ (exists c', ((c' = c /\ st' = st) \/ c' = get_connected S P true ot st') /\ c_avail c' <= eps)).
Proof.
  induction fuel as [|fuel IH]; intros st np c iter res Hok Hw Hc Hrun; cbn [push_loop] in Hrun.
  - inversion Hrun; subst; cbn [fst snd].
    split; [exact Hok|]. split; [exact Hw|]. split; [reflexivity|].
    split; [intros k Hk; pose proof (proj1 Hw k Hk); lra|]. split; [intros; ring|].
    split; [apply frame_refl|].
    split; [lia | intros Habs; lia].
  - destruct (Qltb eps (vol np) && Qltb eps (c_avail c)) eqn:Econd.
    + destruct (Qeq_bool (c_prio c) 0) eqn:Ep; [discriminate|].
      apply andb_true_iff in Econd. destruct Econd as [E1 E2]. apply Qltb_true in E1. apply Qltb_true in E2.
      destruct Hc as (Hal & Hsum & Hp0).
      assert (Hpr : 0 < c_prio c).
      { destruct (Qlt_le_dec 0 (c_prio c)) as [H|H]; [exact H|]. assert (c_prio c == 0) by lra.
        apply Qeq_bool_iff in H0. congruence. }
      set (amount := Qmin (c_avail c) (vol np)) in *.
      pose proof eps_pos as He.
      assert (Ham : 0 <= amount <= vol np) by (unfold amount; split; [apply Q.min_glb; lra | apply Q.le_min_r]).
      assert (Hsh : shares ot st (c_alloc c) amount (c_prio c) <= vol np).
      { eapply Qle_trans; [apply shares_le; [lra | exact Hpr | exact Hal]|].
        rewrite <- Hsum. assert (E : amount * c_prio c / c_prio c == amount) by (field; lra). rewrite E. lra. }
      destruct (push_round_spec ot amount (c_prio c) ltac:(lra) Hpr st (c_alloc c) np Hok Hw Hal Hsh)
        as (R1 & R2 & R3 & R4 & R5 & _ & R7).
      destruct (push_round S P ot st (c_alloc c) amount (c_prio c) np) as [st1 np1] eqn:Er. cbn [fst snd] in *.
      specialize (IH st1 np1 (get_connected S P true ot st1) (Datatypes.S iter) res R1 R2 (get_connected_ok true ot st1 R1) Hrun).
      cbn zeta in IH. destruct IH as (I1 & I2 & I3 & I4 & I5 & I6 & I7 & I8).
      split; [exact I1|]. split; [exact I2|]. split; [congruence|].
      split; [intros k Hk; pose proof (I4 k Hk); pose proof (R4 k Hk); lra|].
      split; [intros k Hk; rewrite (I5 k Hk), (R5 k Hk); ring|].
      split.
      { exact (frame_trans ot st st1 R7 _ I6). }
      split; [lia|]. intros Hlt.
      destruct (I8 ltac:(lia)) as [Hv | Hex]; [left; exact Hv|].
      destruct Hex as (c' & Hor & Hc'). right. exists c'. split; [right | exact Hc'].
      destruct Hor as [[Ec Est] | Ec]; [rewrite Ec, Est; reflexivity | exact Ec].
    + inversion Hrun; subst; cbn [fst snd].
      split; [exact Hok|]. split; [exact Hw|]. split; [reflexivity|].
      split; [intros k Hk; pose proof (proj1 Hw k Hk); lra|]. split; [intros; ring|].
      split; [apply frame_refl|].
      split; [lia|]. intros _.
      apply andb_false_iff in Econd. destruct Econd as [E|E]; apply Qltb_false in E.
      * left; exact E.
      * right. exists c. split; [left; split; reflexivity | exact E].
Qed.

(* ---------------- push_distributed as a whole ---------------- *)
Definition feasible_exhausted (push : bool) (ot : option (list nat)) (c0 : conn) (st st' : star) : Prop :=
  exists c', ((c' = c0 /\ st' = st) \/ c' = get_connected S P push ot st') /\ c_avail c' <= eps.

Theorem push_distributed_spec maxiter ot st v st' np msg : star_ok st -> wet v ->
  push_distributed S P maxiter ot st v = Some (st', np, msg) ->
  star_ok st' /\ length st' = length st /\
  (forall k, conserved k -> 0 <= cmp k np <= cmp k v) /\
  (forall k, conserved k -> sumvin k st' == sumvin k st + (cmp k v - cmp k np)) /\
  Forall2 (frame ot) st st' /\
  (msg = false -> length st <> 1%nat ->
     vol np <= eps \/ exists c0, feasible_exhausted true ot c0 st st').
Proof.
  intros Hok Hw Hrun. unfold push_distributed in Hrun.
  assert (General : forall c0, conn_ok c0 ->
            match push_loop S P maxiter ot st v c0 0 with
            | Some (st'0, np0, iter) => Some (st'0, np0, Nat.eqb iter maxiter)
            | None => None
            end = Some (st', np, msg) ->
            star_ok st' /\ length st' = length st /\
            (forall k, conserved k -> 0 <= cmp k np <= cmp k v) /\
            (forall k, conserved k -> sumvin k st' == sumvin k st + (cmp k v - cmp k np)) /\
            Forall2 (frame ot) st st' /\
            (msg = false -> vol np <= eps \/ exists c0, feasible_exhausted true ot c0 st st')).
  { intros c0 Hc0 Hr. destruct (push_loop S P maxiter ot st v c0 0) as [[[st1 np1] it]|] eqn:El; [|discriminate].
    inversion Hr; subst. destruct (push_loop_spec ot maxiter st v c0 0%nat _ Hok Hw Hc0 El) as (L1 & L2 & L3 & L4 & L5 & L6 & L7 & L8).
    cbn [fst snd] in *. split; [exact L1|]. split; [exact L3|]. split; [exact L4|]. split; [exact L5|]. split; [exact L6|].
    intros Hm. apply Nat.eqb_neq in Hm. destruct (L8 ltac:(lia)) as [H|H]; [left; exact H | right; exists c0; exact H]. }
  assert (Hmode : conn_ok (let c0 := get_connected S P true ot st in
                           if Qltb (c_avail c0) (vol v) then mkConn (c_avail c0) (c_avail c0) (c_cap c0) (c_cap c0) else c0)).
  { cbn zeta. destruct (Qltb _ _); [|apply get_connected_ok; exact Hok].
    unfold conn_ok, get_connected; cbn [c_alloc c_prio c_avail c_cap]. rewrite Qred_correct.
    pose proof (avails_nonneg true ot st) as H. split; [exact H|]. split; [reflexivity | apply sumq_nonneg; exact H]. }
  destruct st as [|x [|y r]].
  - destruct (General _ Hmode Hrun) as (G1 & G2 & G3 & G4 & G5 & G6). repeat (split; [assumption|]). intros Hm _. exact (G6 Hm).
  - destruct (selected S ot x) eqn:Esel.
    + inversion Hok as [|x0 l0 (Ha & Hs & Hp) _]; subst.
      destruct (a_push_spec S P K (sa_a S x) (sa_s S x) v Hs Hw Ha) as (A1 & A2 & A3 & A4 & _ & _ & _ & A8).
      destruct (a_send_push S P (sa_a S x) (sa_s S x) v false) as [[a' s'] reply] eqn:Es. cbn [fst snd] in *.
      inversion Hrun; subst.
      split; [constructor; [split; [exact A2 | split; [exact A1 | exact Hp]] | constructor]|]. split; [reflexivity|].
      split; [exact A3|].
      split; [intros k Hk; cbn [sumvin fold_right sa_a]; rewrite (A4 k Hk); ring|].
      split; [constructor; [unfold frame; cbn [sa_ty sa_pref sa_a]; repeat split; try reflexivity; [exact A8 | intros; congruence] | constructor]|].
      intros _ Hlen. cbn in Hlen. congruence.
    + inversion Hrun; subst. split; [exact Hok|]. split; [reflexivity|].
      split; [intros k Hk; pose proof (proj1 Hw k Hk); lra|]. split; [intros; ring|]. split; [apply frame_refl|].
      intros _ Hlen. cbn in Hlen. congruence.
  - destruct (General _ Hmode Hrun) as (G1 & G2 & G3 & G4 & G5 & G6). repeat (split; [assumption|]). intros Hm _. exact (G6 Hm).
Qed.

(* ---------------- totality: the unguarded division by connected["priority"] ---------------- *)
(* With strictly positive preferences the allocation never divides by zero. *)
Definition prefs_pos (st : star) : Prop := Forall (fun x => 0 < sa_pref S x) st.
Definition conn_pos (c : conn) : Prop := 0 < c_avail c -> 0 < c_prio c.

Lemma sumq_avails_cons push ot x st :
  sumq (avails S P push ot (x :: st)) = avail1 S P push ot x + sumq (avails S P push ot st).
Proof. reflexivity. Qed.
Lemma sumq_allocs_cons push ot x st :
  sumq (allocs S P push ot (x :: st)) = Qred (avail1 S P push ot x * sa_pref S x) + sumq (allocs S P push ot st).
Proof. reflexivity. Qed.
Lemma allocs_pos push ot st : prefs_pos st -> 0 < sumq (avails S P push ot st) -> 0 < sumq (allocs S P push ot st).
Proof.
  induction st as [|x st IH]; intros Hp Hs; [cbn in Hs; lra|].
  inversion Hp as [|x0 l0 Hx Hl]; subst. rewrite sumq_avails_cons in Hs. rewrite sumq_allocs_cons, Qred_correct.
  pose proof (avail1_nonneg push ot x) as Ha.
  assert (Hrest : 0 <= sumq (allocs S P push ot st)).
  { apply sumq_nonneg. unfold allocs. apply Forall_forall. intros w Hw. apply in_map_iff in Hw. destruct Hw as (y & E & Hin). subst.
    rewrite Qred_correct. pose proof (avail1_nonneg push ot y) as Hy. pose proof (proj1 (Forall_forall _ _) Hl y Hin) as Hpy.
    cbn beta in Hpy. nra. }
  destruct (Qlt_le_dec 0 (avail1 S P push ot x)) as [Hpos|Hz].
  - assert (0 < avail1 S P push ot x * sa_pref S x) by nra. lra.
  - assert (Hz0 : avail1 S P push ot x == 0) by lra.
    assert (Hs' : 0 < sumq (avails S P push ot st)) by lra.
    specialize (IH Hl Hs'). nra.
Qed.
Lemma get_connected_pos push ot st : prefs_pos st -> conn_pos (get_connected S P push ot st).
Proof.
  intros Hp. unfold conn_pos, get_connected; cbn [c_avail c_prio]. rewrite !Qred_correct. apply allocs_pos; exact Hp.
Qed.
Lemma push_round_prefs ot st al amount prio np : prefs_pos st ->
  prefs_pos (fst (push_round S P ot st al amount prio np)).
Proof.
  revert al np. induction st as [|x st IH]; intros al np Hp; [destruct al; exact Hp|].
  destruct al as [|w al]; [exact Hp|]. inversion Hp as [|x0 l0 Hx Hl]; subst. cbn [push_round].
  destruct (selected S ot x).
  - destruct (a_send_push S P (sa_a S x) (sa_s S x) _ false) as [[a' s'] reply].
    specialize (IH al (vsub np (vsub (vchange np (amount * w / prio)) reply)) Hl).
    destruct (push_round S P ot st al amount prio _) as [r' np'']. cbn [fst] in *. constructor; [exact Hx | exact IH].
  - specialize (IH al np Hl). destruct (push_round S P ot st al amount prio np) as [r' np']. cbn [fst] in *.
    constructor; [exact Hx | exact IH].
Qed.
Theorem push_loop_total ot : forall fuel st np c iter, prefs_pos st -> conn_pos c ->
  push_loop S P fuel ot st np c iter <> None.
Proof.
  induction fuel as [|fuel IH]; intros st np c iter Hp Hc; cbn [push_loop]; [discriminate|].
  destruct (Qltb eps (vol np) && Qltb eps (c_avail c)) eqn:Econd; [|discriminate].
  apply andb_true_iff in Econd. destruct Econd as [_ E2]. apply Qltb_true in E2. pose proof eps_pos.
  destruct (Qeq_bool (c_prio c) 0) eqn:Ep.
  - apply Qeq_bool_iff in Ep. pose proof (Hc ltac:(lra)). lra.
  - pose proof (push_round_prefs ot st (c_alloc c) (Qmin (c_avail c) (vol np)) (c_prio c) np Hp) as Hp1.
    destruct (push_round S P ot st (c_alloc c) _ (c_prio c) np) as [st1 np1]. cbn [fst] in Hp1.
    apply IH; [exact Hp1 | apply get_connected_pos; exact Hp1].
Qed.
Theorem push_distributed_total maxiter ot st v : prefs_pos st -> push_distributed S P maxiter ot st v <> None.
Proof.
  intros Hp. unfold push_distributed.
  assert (G : forall c, conn_pos c -> match push_loop S P maxiter ot st v c 0 with
                                      | Some (st', np, iter) => Some (st', np, Nat.eqb iter maxiter)
                                      | None => None end <> None).
  { intros c Hc. pose proof (push_loop_total ot maxiter st v c 0%nat Hp Hc) as H.
    destruct (push_loop S P maxiter ot st v c 0) as [[[a b] d]|]; [discriminate | congruence]. }
  assert (Hmode : conn_pos (let c0 := get_connected S P true ot st in
                            if Qltb (c_avail c0) (vol v) then mkConn (c_avail c0) (c_avail c0) (c_cap c0) (c_cap c0) else c0)).
  { cbn zeta. destruct (Qltb _ _); [unfold conn_pos; cbn [c_avail c_prio]; intros H; exact H | apply get_connected_pos; exact Hp]. }
  destruct st as [|x [|y r]]; [apply G; exact Hmode | | apply G; exact Hmode].
  destruct (selected S ot x); [|discriminate]. destruct (a_send_push S P (sa_a S x) (sa_s S x) v false) as [[a' s'] reply]. discriminate.
Qed.

(* ---------------- pull: never more than asked, pieces add up ---------------- *)
Fixpoint pshares (ot : option (list nat)) (st : star) (al : list Q) (deficit prio : Q) : Q :=
  match st, al with
  | x :: r, w :: al' => (if selected S ot x then deficit * w / prio else 0) + pshares ot r al' deficit prio
  | _, _ => 0
  end.
Lemma pull_round_spec ot deficit prio : 0 <= deficit -> 0 < prio ->
  forall st al pulled, star_ok st -> nonneg pulled -> Forall (fun w => 0 <= w) al ->
  let st' := fst (pull_round S P ot st al deficit prio pulled) in
  let p' := snd (pull_round S P ot st al deficit prio pulled) in
  star_ok st' /\ nonneg p' /\ length st' = length st /\
  (forall c, conserved c -> cmp c pulled <= cmp c p') /\
  (forall c, conserved c -> sumvin c st' == sumvin c st + (cmp c p' - cmp c pulled)) /\
  vol p' <= vol pulled + pshares ot st al deficit prio /\
  Forall2 (pframe ot) st st'.
Proof.
  intros Hd Hpr. induction st as [|x st IH]; intros al pulled Hok Hn Hal.
  - cbn. split; [constructor|]. split; [exact Hn|]. split; [reflexivity|].
    split; [intros; lra|]. split; [intros; ring|]. split; [lra | constructor].
  - destruct al as [|w al].
    + cbn. split; [exact Hok|]. split; [exact Hn|]. split; [reflexivity|].
      split; [intros; lra|]. split; [intros; ring|]. split; [lra|].
      apply pframe_refl.
    + inversion Hok as [|x0 l0 Hx Hst]; subst. inversion Hal as [|w0 l1 Hw0 Hal']; subst.
      cbn [pull_round pshares].
      destruct (selected S ot x) eqn:Esel.
      * set (share := deficit * w / prio).
        assert (Hs0 : 0 <= share) by (unfold share; apply Qle_shift_div_l; [lra | nra]).
        assert (Hs1 : 0 <= Qred share) by (rewrite Qred_correct; exact Hs0).
        destruct Hx as (Ha & Hs & Hp).
        destruct (a_pull_spec S P K (sa_a S x) (sa_s S x) (Qred share) Hs Hs1 Ha) as (A1 & A2 & A3 & A4 & A5 & _ & _ & _ & _).
        destruct (a_send_pull S P (sa_a S x) (sa_s S x) (Qred share)) as [[a' s'] got] eqn:Esend.
        cbn [fst snd] in A1, A2, A3, A4, A5. rewrite Qred_correct in A4.
        assert (Hn1 : nonneg (vsum pulled got)).
        { intros c Hc. rewrite cmp_sum by exact Hc. pose proof (Hn c Hc). pose proof (A3 c Hc). lra. }
        specialize (IH al (vsum pulled got) Hst Hn1 Hal'). cbn zeta in IH.
        destruct (pull_round S P ot st al deficit prio (vsum pulled got)) as [r' p'] eqn:Erec. cbn [fst snd] in *.
        destruct IH as (I1 & I2 & I3 & I4 & I5 & I6 & I7).
        split; [constructor; [split; [exact A2 | split; [exact A1 | exact Hp]] | exact I1]|].
        split; [exact I2|]. split; [cbn [length]; congruence|].
        split; [intros c Hc; pose proof (I4 c Hc) as H4; rewrite cmp_sum in H4 by exact Hc; pose proof (A3 c Hc); lra|].
        split.
        { intros c Hc. cbn [sumvin fold_right sa_a]. fold (sumvin c r'). fold (sumvin c st).
          pose proof (I5 c Hc) as H5. rewrite cmp_sum in H5 by exact Hc. rewrite H5, (A5 c Hc). ring. }
        split; [rewrite vol_sum in I6; fold share; lra|].
        constructor; [|exact I7]. unfold pframe. cbn [sa_ty]. split; [reflexivity | intros Habs; congruence].
      * specialize (IH al pulled Hst Hn Hal'). cbn zeta in IH.
        destruct (pull_round S P ot st al deficit prio pulled) as [r' p'] eqn:Erec. cbn [fst snd] in *.
        destruct IH as (I1 & I2 & I3 & I4 & I5 & I6 & I7).
        split; [constructor; [exact Hx | exact I1]|]. split; [exact I2|]. split; [cbn [length]; congruence|].
        split; [exact I4|].
        split; [intros c Hc; cbn [sumvin fold_right]; fold (sumvin c r'); fold (sumvin c st); rewrite (I5 c Hc); ring|].
        split; [lra|]. constructor; [split; reflexivity | exact I7].
Qed.
Lemma pshares_le ot deficit prio : 0 <= deficit -> 0 < prio -> forall st al,
  Forall (fun w => 0 <= w) al -> pshares ot st al deficit prio <= deficit * sumq al / prio.
Proof.
  intros Ham Hpr. induction st as [|x st IH]; intros al Hal; destruct al as [|w al]; cbn [pshares sumq fold_right].
  - unfold Qdiv; rewrite Qmult_0_r, Qmult_0_l; lra.
  - inversion Hal; subst. pose proof (sumq_nonneg al H2). fold (sumq al). apply Qle_shift_div_l; [lra | nra].
  - unfold Qdiv; rewrite Qmult_0_r, Qmult_0_l; lra.
  - inversion Hal as [|w0 l0 Hw0 Hal']; subst. specialize (IH al Hal'). fold (sumq al).
    assert (E : deficit * (w + sumq al) / prio == deficit * w / prio + deficit * sumq al / prio) by (field; lra).
    rewrite E. assert (0 <= deficit * w / prio) by (apply Qle_shift_div_l; [lra | nra]).
    destruct (selected S ot x); lra.
Qed.

Theorem pull_loop_spec ot want : forall fuel st pulled deficit c iter res,
  star_ok st -> nonneg pulled -> conn_ok c -> deficit == want - vol pulled -> vol pulled <= Qmax want 0 ->
  pull_loop S P fuel ot st want pulled deficit c iter = Some res ->
  let st' := fst (fst res) in let p' := snd (fst res) in let iter' := snd res in
  star_ok st' /\ nonneg p' /\
  vol p' <= Qmax want 0 /\
  (forall k, conserved k -> sumvin k st' == sumvin k st + (cmp k p' - cmp k pulled)) /\
  Forall2 (pframe ot) st st' /\ (iter <= iter' <= iter + fuel)%nat /\
  ((iter' < iter + fuel)%nat ->
     want - vol p' <= eps \/ (exists c', ((c' = c /\ st' = st) \/ c' = get_connected S P false ot st') /\ c_avail c' <= eps)).
Proof.
  induction fuel as [|fuel IH]; intros st pulled deficit c iter res Hok Hn Hc Hdef Hle Hrun; cbn [pull_loop] in Hrun.
  - inversion Hrun; subst; cbn [fst snd].
    split; [exact Hok|]. split; [exact Hn|]. split; [exact Hle|]. split; [intros; ring|].
    split; [apply pframe_refl|]. split; [lia|]. intros Habs; lia.
  - destruct (Qltb eps deficit && Qltb eps (c_avail c)) eqn:Econd.
    + destruct (Qeq_bool (c_prio c) 0) eqn:Ep; [discriminate|].
      apply andb_true_iff in Econd. destruct Econd as [E1 E2]. apply Qltb_true in E1. apply Qltb_true in E2.
      destruct Hc as (Hal & Hsum & Hp0). pose proof eps_pos as He.
      assert (Hpr : 0 < c_prio c).
      { destruct (Qlt_le_dec 0 (c_prio c)) as [H|H]; [exact H|]. assert (c_prio c == 0) by lra.
        apply Qeq_bool_iff in H0. congruence. }
      destruct (pull_round_spec ot deficit (c_prio c) ltac:(lra) Hpr st (c_alloc c) pulled Hok Hn Hal)
        as (R1 & R2 & R3 & R4 & R5 & R6 & R7).
      pose proof (pshares_le ot deficit (c_prio c) ltac:(lra) Hpr st (c_alloc c) Hal) as Hps.
      rewrite <- Hsum in Hps. assert (E : deficit * c_prio c / c_prio c == deficit) by (field; lra). rewrite E in Hps.
      destruct (pull_round S P ot st (c_alloc c) deficit (c_prio c) pulled) as [st1 p1] eqn:Er. cbn [fst snd] in *.
      assert (Hle1 : vol p1 <= Qmax want 0).
      { assert (vol p1 <= want) by lra. pose proof (Q.le_max_l want 0). lra. }
      specialize (IH st1 p1 (Qred (want - vol p1)) (get_connected S P false ot st1) (Datatypes.S iter) res R1 R2
                     (get_connected_ok false ot st1 R1) (Qred_correct _) Hle1 Hrun).
      cbn zeta in IH. destruct IH as (I1 & I2 & I3 & I4 & I5 & Iit & I6).
      split; [exact I1|]. split; [exact I2|]. split; [exact I3|].
      split; [intros k Hk; rewrite (I4 k Hk), (R5 k Hk); ring|].
      split.
      { exact (pframe_trans ot st st1 R7 _ I5). }
      split; [lia|]. intros Hlt. destruct (I6 ltac:(lia)) as [Hv | Hex]; [left; exact Hv|].
      destruct Hex as (c' & Hor & Hc'). right. exists c'. split; [right | exact Hc'].
      destruct Hor as [[Ec Est] | Ec]; [rewrite Ec, Est; reflexivity | exact Ec].
    + inversion Hrun; subst; cbn [fst snd].
      split; [exact Hok|]. split; [exact Hn|]. split; [exact Hle|]. split; [intros; ring|].
      split; [apply pframe_refl|]. split; [lia|]. intros _.
      apply andb_false_iff in Econd. destruct Econd as [E|E]; apply Qltb_false in E.
      * left. lra.
      * right. exists c. split; [left; split; reflexivity | exact E].
Qed.

Theorem pull_distributed_spec maxiter ot st want st' got msg : star_ok st -> 0 <= want ->
  pull_distributed S P maxiter ot st want = Some (st', got, msg) ->
  star_ok st' /\ nonneg got /\ vol got <= want /\
  (forall k, conserved k -> sumvin k st' == sumvin k st + cmp k got) /\
  Forall2 (pframe ot) st st' /\
  (msg = false -> length st <> 1%nat ->
     want - vol got <= eps \/ exists c0, feasible_exhausted false ot c0 st st').
Proof.
  intros Hok Hw Hrun. unfold pull_distributed in Hrun.
  assert (General :
            match pull_loop S P maxiter ot st want vzero want (get_connected S P false ot st) 0 with
            | Some (st'0, p0, iter) => Some (st'0, p0, Nat.eqb iter maxiter)
            | None => None
            end = Some (st', got, msg) ->
            star_ok st' /\ nonneg got /\ vol got <= want /\
            (forall k, conserved k -> sumvin k st' == sumvin k st + cmp k got) /\
            Forall2 (pframe ot) st st' /\
            (msg = false -> want - vol got <= eps \/ exists c0, feasible_exhausted false ot c0 st st')).
  { intros Hr. destruct (pull_loop S P maxiter ot st want vzero want (get_connected S P false ot st) 0) as [[[st1 p1] it]|] eqn:El; [|discriminate].
    inversion Hr; subst.
    assert (Hd : want == want - vol vzero) by (cbn [vol vzero]; ring).
    assert (Hle : vol vzero <= Qmax want 0) by (cbn [vol vzero]; apply Q.le_max_r).
    destruct (pull_loop_spec ot want maxiter st vzero want _ 0%nat _ Hok nonneg_zero (get_connected_ok false ot st Hok) Hd Hle El)
      as (L1 & L2 & L3 & L4 & L5 & Lit & L6). cbn [fst snd] in *.
    split; [exact L1|]. split; [exact L2|].
    split; [destruct (Q.max_spec want 0) as [[M0 M]|[M0 M]]; rewrite M in L3; lra|].
    split; [intros k Hk; rewrite (L4 k Hk), cmp_zero; ring|]. split; [exact L5|].
    intros Hm. apply Nat.eqb_neq in Hm. destruct (L6 ltac:(lia)) as [H|H]; [left; exact H | right; eexists; exact H]. }
  destruct st as [|x [|y r]].
  - destruct (General Hrun) as (G1 & G2 & G3 & G4 & G5 & G6). repeat (split; [assumption|]). intros Hm _. exact (G6 Hm).
  - destruct (selected S ot x) eqn:Esel.
    + inversion Hok as [|x0 l0 (Ha & Hs & Hp) _]; subst.
      destruct (a_pull_spec S P K (sa_a S x) (sa_s S x) want Hs Hw Ha) as (A1 & A2 & A3 & A4 & A5 & _).
      destruct (a_send_pull S P (sa_a S x) (sa_s S x) want) as [[a' s'] g] eqn:Es. cbn [fst snd] in *.
      inversion Hrun; subst.
      split; [constructor; [split; [exact A2 | split; [exact A1 | exact Hp]] | constructor]|].
      split; [exact A3|]. split; [exact A4|].
      split; [intros k Hk; cbn [sumvin fold_right sa_a]; rewrite (A5 k Hk); ring|].
      split; [constructor; [unfold pframe; cbn [sa_ty]; split; [reflexivity | intros; congruence] | constructor]|].
      intros _ Hlen. cbn in Hlen. congruence.
    + inversion Hrun; subst. split; [exact Hok|]. split; [apply nonneg_zero|]. split; [cbn [vol vzero]; exact Hw|].
      split; [intros k Hk; rewrite cmp_zero; ring|]. split; [apply pframe_refl|].
      intros _ Hlen. cbn in Hlen. congruence.
  - destruct (General Hrun) as (G1 & G2 & G3 & G4 & G5 & G6). repeat (split; [assumption|]). intros Hm _. exact (G6 Hm).
Qed.
End StarLaws.
