(* Refuted.v — witnesses, inside the faithful model, of statements that the
   properties ask for but the modelled code does not satisfy.  Each is proved by
   evaluating the model (vm_compute) on a concrete input; the same input is
   replayed on the implementation by the check (harness/findings.py) and listed
   in /verif/known_findings.json while the defect is open. *)
From Coq Require Import QArith Qminmax List Bool Arith.
From WSI Require Import Vqip Pow Tank Arc QTank Distrib Kinds Leak Run.
Import ListNotations.
Open Scope Q_scope.

Definition w_run_qarc (q : qarc) (s : nb * nb) (ops : list aop) : qarc * (nb * nb) :=
  fold_left (fun st o => fst (qarc_do _ nbport (fst st) (snd st) o)) ops (q, s).

(* a receiver whose check reports room but whose set accepts nothing *)
Definition w_rejecting : nb := NS (mkS [1000#1] [0] 0 (mkV 1 [] [])).
Definition w_idle : nb := NS (mkS [0] [0] 0 vzero).

(* C06 (and C04): a request admitted in an earlier timestep bounces when a later
   push triggers update_queue; the bounce is subtracted from this timestep's
   inflow record, which goes negative, and the sender is handed back more than
   it offered. *)
Definition w_c06_ops : list aop :=
  [APush (mkV (5#1) [1#1] []) false 0; AEnd; APush (mkV (1#1) [0] []) false 0].
Definition w_c06_final : qarc := fst (w_run_qarc (q_init (10#1) 1 []) (w_idle, w_rejecting) w_c06_ops).
Example C06_refuted_late_bounce : vol (a_vin (q_a w_c06_final)) < 0.
Proof. vm_compute. reflexivity. Qed.
Example C04_refuted_reply_exceeds_offer :
  let st := w_run_qarc (q_init (10#1) 1 []) (w_idle, w_rejecting) (firstn 2 w_c06_ops) in
  let r := snd (q_send_push _ nbport (fst st) (snd st) (mkV (1#1) [0] []) false 0) in
  1 < vol r.
Proof. vm_compute. reflexivity. Qed.

(* C02 / C04 (repaired in /repo, see known_findings.json "fixed"): a push whose volume is below
   FLOAT_ACCURACY used to be answered "nothing left" although nothing was recorded; it is now handed
   back whole - state unchanged, reply = offer. *)
Definition w_tiny : vqip := mkV (1#1000000000000) [1#1] [].
Example tiny_push_is_handed_back :
  let q := q_init (10#1) 1 [] in let s := (w_idle, w_rejecting) in
  q_send_push _ nbport q s w_tiny false 0 = (q, s, w_tiny).
Proof. vm_compute. reflexivity. Qed.

(* C07 / C18 (open finding distribution-leakage-bounced-to-consumer): a Distribution with 10 % leakage between a
   reservoir holding 1000 and a consumer; its groundwater neighbour has room for 1/2.  A pull of 9 draws 10 from the
   reservoir, 1 leaks, groundwater takes 1/2 and the other 1/2 is handed to the consumer on top of the 9 asked for.
   (LeakLaws.dn_pull_within_request_when_placed is the positive statement: at most the request whenever the leak is
   placed.)  Replayed on the implementation by harness/findings.py distribution_leakage_bounced. *)
Definition w_idle_nb : nb := NS (mkS [0] [0] 0 vzero).
Definition w_leak_node : dnode (nb * nb) :=
  mkDN _ [mkSA _ (a_init (1000000000000000#1)) 1 (NT (t_init (1000#1) (mkV (1000#1) [] []) [] (2#1)), w_idle_nb) T_RESERVOIR]
         [mkSA _ (a_init (1000000000000000#1)) 1 (w_idle_nb, NT (t_init (1#2) (mkV 0 [] []) [] (2#1))) T_GROUNDWATER]
         (1#10).
Example C18_refuted_leak_bounced_to_consumer :
  match dn_pull_set _ nbport 5 w_leak_node (9#1) with Some (_, r) => vol r == 19#2 | None => False end.
Proof. vm_compute. reflexivity. Qed.
