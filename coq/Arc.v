(* Arc.v — executable model of wsimod.arcs.arcs: Arc (PullArc/PushArc denials),
   QueueArc/DecayArc (request list), AltQueueArc/DecayArcAlt (buckets by
   remaining time; the dict-with-gaps of the source as a dense list), and of
   QueueTank/DecayQueueTank (tanks.py) which own an internal AltQueueArc.
   The nodes at the two ends are a `port`: four functions over an arbitrary
   state type, so that theorems quantify over every neighbour behaviour and the
   correspondence check instantiates them with tanks and scripted neighbours. *)
From Coq Require Import QArith Qminmax List Bool Arith.
From WSI Require Import Vqip Pow Tank.
Import ListNotations.
Open Scope Q_scope.

Definition eps : Q := 1 # 100000000000.     (* constants.FLOAT_ACCURACY, checked against gen/GenConst *)
Definition Qltb (a b : Q) : bool := if Qlt_le_dec a b then true else false.

(* operations of the arc interpreters (also used by the correspondence check) *)
Inductive aop :=
| APush (v : vqip) (force : bool) (time : nat) | APull (v : Q) (time : nat)
| APushCheck (ov : option vqip) | APullCheck (ov : option Q) | AEnd | ADs | ASetT (T : Q).
Inductive akind := KArc | KPullArc | KPushArc.

Section Ports.
Variable S : Type.
Record port := mkPort {
  p_push_check : S -> option vqip -> vqip;
  p_push_set : S -> vqip -> S * vqip;
  p_pull_check : S -> option Q -> vqip;
  p_pull_set : S -> Q -> S * vqip
}.
Variable P : port.

(* ---------------- plain Arc ---------------- *)
Record arc := mkA { a_cap : Q; a_fin : Q; a_fout : Q; a_vin : vqip; a_vout : vqip }.
Definition a_init (cap : Q) : arc := mkA cap 0 0 vzero vzero.

Definition a_excess_push (a : arc) (s : S) (ov : option vqip) : vqip :=
  let ne := p_push_check P s ov in vchange ne (Qmin (a_cap a - a_fin a) (vol ne)).
Definition a_excess_pull (a : arc) (s : S) (ov : option Q) : vqip :=
  let ne := p_pull_check P s ov in vchange ne (Qmin (a_cap a - a_fin a) (vol ne)).

Definition a_record (a : arc) (v : vqip) : arc :=
  let fin := Qred (a_fin a + vol v) in
  let vin := vsum (a_vin a) v in mkA (a_cap a) fin fin vin vin.

Definition a_send_push (a : arc) (s : S) (v : vqip) (force : bool) : arc * S * vqip :=
  let not_pushed :=
    if force then vzero
    else vchange v (Qmax (vol v - vol (a_excess_push a s (Some v))) 0) in
  let v1 := vsub v not_pushed in
  let '(s', reply) := p_push_set P s v1 in
  let v2 := vsub v1 reply in
  (a_record a v2, s', vsum reply not_pushed).

Definition a_send_pull (a : arc) (s : S) (v : Q) : arc * S * vqip :=
  let excess := vol (a_excess_pull a s (Some v)) in
  let volume := v - Qmax (v - excess) 0 in
  let '(s', got) := p_pull_set P s (Qred volume) in
  (a_record a got, s', got).

Definition a_end (a : arc) : arc := mkA (a_cap a) 0 0 vzero vzero.

(* one operation on a plain / pull-only / push-only arc: (arc', far ends', reply) *)
Definition arc_do (k : akind) (a : arc) (s : S) (o : aop) : arc * S * vqip :=
  match o with
  | APush v f _ =>
      match k with
      | KPullArc => (a, s, v)
      | _ => a_send_push a s v f
      end
  | APull v _ =>
      match k with
      | KPushArc => (a, s, vzero)
      | _ => a_send_pull a s v
      end
  | APushCheck ov =>
      match k with KPullArc => (a, s, vzero) | _ => (a, s, a_excess_push a s ov) end
  | APullCheck ov =>
      match k with KPushArc => (a, s, vzero) | _ => (a, s, a_excess_pull a s ov) end
  | AEnd => (a_end a, s, vzero)
  | ADs => (a, s, vzero)
  | ASetT _ => (a, s, vzero)
  end.

(* ---------------- QueueArc / DecayArc ---------------- *)
Record qreq := mkR { r_time : nat; r_v : vqip; r_avg : Q; r_push : bool }.
Record qarc := mkQ {
  q_a : arc; q_n : nat; q_queue : list qreq;
  q_qs : vqip; q_qs_ : vqip;                 (* queue_storage, queue_storage_ *)
  q_dec : list (Q * Q); q_decayed : vqip; q_T : Q
}.
Definition q_init (cap : Q) (n : nat) (dec : list (Q * Q)) : qarc :=
  mkQ (a_init cap) n [] vzero vzero dec vzero 0.
Definition q_with_a (q : qarc) (a : arc) :=
  mkQ a (q_n q) (q_queue q) (q_qs q) (q_qs_ q) (q_dec q) (q_decayed q) (q_T q).
Definition q_set_T (q : qarc) (T : Q) :=
  mkQ (q_a q) (q_n q) (q_queue q) (q_qs q) (q_qs_ q) (q_dec q) (q_decayed q) T.

Definition q_sum (q : qarc) : vqip := fold_left (fun acc r => vsum acc (r_v r)) (q_queue q) vzero.

(* enter_arc + enter_queue (DecayArc decays on entry; [] decays nothing) *)
Definition q_enter (q : qarc) (time : nat) (v : vqip) (push : bool) : qarc :=
  let avg := Qred (vol v / inject_Z (Z.of_nat (time + 1))) in
  let a := q_a q in
  let a' := mkA (a_cap a) (Qred (a_fin a + avg)) (a_fout a) (vsum (a_vin a) v) (a_vout a) in
  let '(v', diff) := match q_dec q with [] => (v, vzero) | d => vdecay d (q_T q) v end in
  mkQ a' (q_n q) (q_queue q ++ [mkR time v' avg push]) (q_qs q) (q_qs_ q) (q_dec q)
      (match q_dec q with [] => q_decayed q | _ => vsum (q_decayed q) diff end) (q_T q).

(* update_queue(direction), backflow enabled: returns (total_removed, total_backflow) *)
Fixpoint q_update_loop (push : bool) (rs : list qreq) (s : S) (fout : Q) (removed back : vqip)
  : list qreq * S * Q * vqip * vqip :=
  match rs with
  | [] => ([], s, fout, removed, back)
  | r :: rest =>
      if negb (Bool.eqb (r_push r) push) then
        let '(rest', s', fo, rm, bk) := q_update_loop push rest s fout removed back in
        (r :: rest', s', fo, rm, bk)
      else if Qltb (vol (r_v r)) eps then
        q_update_loop push rest s fout removed back               (* dropped *)
      else match r_time r with
      | O =>
          let v := r_v r in
          (* a push: what the receiver hands back IS the rejected part (whatever its composition), the parcel less
             that is what was delivered; a pull: everything queued is handed over *)
          let '(s', rem, dlv, bck) :=
            if push then let '(s', reply) := p_push_set P s v in (s', vol v - vol reply, vsub v reply, reply)
            else (s, vol v, vchange v (vol v), vchange v (vol v - vol v)) in
          let fout' := Qred (fout + r_avg r * rem / vol v) in
          let removed' := vsum removed dlv in
          let back' := vsum bck back in
          q_update_loop push rest s' fout' removed' back'
      | _ =>
          let '(rest', s', fo, rm, bk) := q_update_loop push rest s fout removed back in
          (r :: rest', s', fo, rm, bk)
      end
  end.
Definition q_update (q : qarc) (s : S) (push : bool) : qarc * S * vqip * vqip :=
  let a := q_a q in
  let '(rs, s', fo, rm, bk) := q_update_loop push (q_queue q) s (a_fout a) vzero vzero in
  let a' := mkA (a_cap a) (a_fin a) fo (a_vin a) (vsum (a_vout a) rm) in
  (mkQ a' (q_n q) rs (q_qs q) (q_qs_ q) (q_dec q) (q_decayed q) (q_T q), s', rm, bk).

Definition q_send_push (q : qarc) (s : S) (v : vqip) (force : bool) (time : nat) : qarc * S * vqip :=
  if Qltb (vol v) eps then (q, s, v)            (* too little to queue: handed back whole *)
  else
    let not_pushed :=
      if force then vzero
      else vchange v (Qmax (vol v - vol (a_excess_push (q_a q) s (Some v))) 0) in
    let v1 := vsub v not_pushed in
    let q1 := q_enter q (time + q_n q) v1 true in
    let '(q2, s', _, back) := q_update q1 s true in
    let a := q_a q2 in
    let a' := mkA (a_cap a) (a_fin a) (a_fout a) (vsub (a_vin a) back) (a_vout a) in
    (q_with_a q2 a', s', vsum not_pushed back).

Definition q_send_pull (q : qarc) (s : S) (v : Q) (time : nat) : qarc * S * vqip :=
  let excess := vol (a_excess_pull (q_a q) s (Some v)) in
  let volume := v - Qmax (v - excess) 0 in
  let '(s', got) := p_pull_set P s (Qred volume) in
  let q1 := q_enter q (time + q_n q) got false in
  let '(q2, s'', rm, _) := q_update q1 s' false in
  (q2, s'', rm).

(* arc_mass_balance's ds term: refreshes queue_storage as a side effect *)
Definition q_ds (q : qarc) : qarc * vqip :=
  let qs := q_sum q in
  (mkQ (q_a q) (q_n q) (q_queue q) qs (q_qs_ q) (q_dec q) (q_decayed q) (q_T q), vsub qs (q_qs_ q)).

Definition q_dec1 (d : list (Q * Q)) (T : Q) (r : qreq) (acc : vqip) : qreq * vqip :=
  match d with
  | [] => (mkR (pred (r_time r)) (r_v r) (r_avg r) (r_push r), acc)
  | _ => let '(v', diff) := vdecay d T (r_v r) in
         (mkR (pred (r_time r)) v' (r_avg r) (r_push r), vsum acc diff)
  end.
Definition q_end_fold (d : list (Q * Q)) (T : Q) (rs : list qreq) (init : list qreq * vqip) : list qreq * vqip :=
  fold_left (fun '(rs, acc) r => let '(r', acc') := q_dec1 d T r acc in (rs ++ [r'], acc')) rs init.
Definition q_end (q : qarc) : qarc :=
  let '(rs, tot) := q_end_fold (q_dec q) (q_T q) (q_queue q) ([], vzero) in
  mkQ (a_end (q_a q)) (q_n q) rs vzero (q_qs q) (q_dec q)
      (match q_dec q with [] => q_decayed q | _ => tot end) (q_T q).

Definition qarc_do (q : qarc) (s : S) (o : aop) : qarc * S * vqip :=
  match o with
  | APush v f time => q_send_push q s v f time
  | APull v time => q_send_pull q s v time
  | APushCheck ov => (q, s, a_excess_push (q_a q) s ov)
  | APullCheck ov => (q, s, a_excess_pull (q_a q) s ov)
  | AEnd => (q_end q, s, vzero)
  | ADs => let '(q', d) := q_ds q in (q', s, d)
  | ASetT T => (q_set_T q T, s, vzero)
  end.

(* ---------------- AltQueueArc / DecayArcAlt ---------------- *)
Record altarc := mkAlt {
  l_a : arc; l_n : nat; l_b : list vqip;      (* bucket k = water with k timesteps to go *)
  l_qs : vqip; l_qs_ : vqip;
  l_dec : list (Q * Q); l_decayed : vqip; l_T : Q
}.
Definition l_init (cap : Q) (n : nat) (dec : list (Q * Q)) : altarc :=
  mkAlt (a_init cap) n [vzero; vzero] vzero vzero dec vzero 0.
Definition l_set_T (l : altarc) (T : Q) :=
  mkAlt (l_a l) (l_n l) (l_b l) (l_qs l) (l_qs_ l) (l_dec l) (l_decayed l) T.
Definition bget (b : list vqip) (k : nat) : vqip := nth k b vzero.
Fixpoint badd (b : list vqip) (k : nat) (v : vqip) : list vqip :=
  match k, b with
  | O, [] => [vsum vzero v]
  | O, x :: b' => vsum x v :: b'
  | Datatypes.S k', [] => vzero :: badd [] k' v
  | Datatypes.S k', x :: b' => x :: badd b' k' v
  end.
Definition l_sum (l : altarc) : vqip := fold_left vsum (l_b l) vzero.

Definition l_enter (l : altarc) (time : nat) (v : vqip) : altarc :=
  let avg := Qred (vol v / inject_Z (Z.of_nat (time + 1))) in
  let a := l_a l in
  let a' := mkA (a_cap a) (Qred (a_fin a + avg)) (a_fout a) (vsum (a_vin a) v) (a_vout a) in
  let '(v', diff) := match l_dec l with [] => (v, vzero) | d => vdecay d (l_T l) v end in
  mkAlt a' (l_n l) (badd (l_b l) time v') (l_qs l) (l_qs_ l) (l_dec l)
        (match l_dec l with [] => l_decayed l | _ => vsum (l_decayed l) diff end) (l_T l).

(* update_queue: deliver bucket 0 to the out port; backflow is returned *)
Definition l_update (l : altarc) (s : S) : altarc * S * vqip :=
  let tr := bget (l_b l) 0 in
  let '(s', back) := p_push_set P s tr in
  let b' := match l_b l with [] => [] | _ :: rest => vzero :: rest end in
  let tr' := vsub tr back in
  let a := l_a l in
  let a' := mkA (a_cap a) (a_fin a) (Qred (a_fout a + vol tr')) (a_vin a) (vsum (a_vout a) tr') in
  (mkAlt a' (l_n l) b' (l_qs l) (l_qs_ l) (l_dec l) (l_decayed l) (l_T l), s', back).

Definition l_send_push (l : altarc) (s : S) (v : vqip) (force : bool) (time : nat) : altarc * S * vqip :=
  if Qltb (vol v) eps then (l, s, v)
  else
    let not_pushed :=
      if force then vzero
      else vchange v (Qmax (vol v - vol (a_excess_push (l_a l) s (Some v))) 0) in
    let v1 := vsub v not_pushed in
    let l1 := l_enter l (time + l_n l) v1 in
    let '(l2, s', back) := l_update l1 s in
    let a := l_a l2 in
    let a' := mkA (a_cap a) (a_fin a) (a_fout a) (vsub (a_vin a) back) (a_vout a) in
    (mkAlt a' (l_n l2) (l_b l2) (l_qs l2) (l_qs_ l2) (l_dec l2) (l_decayed l2) (l_T l2), s', vsum not_pushed back).

Definition l_ds (l : altarc) : altarc * vqip :=
  let qs := l_sum l in
  (mkAlt (l_a l) (l_n l) (l_b l) qs (l_qs_ l) (l_dec l) (l_decayed l) (l_T l), vsub qs (l_qs_ l)).

(* end_timestep: bucket k+1 moves to k; buckets 0 and 1 merge *)
Definition l_end (l : altarc) : altarc :=
  let b := l_b l in
  match l_dec l with
  | [] =>
      let b' := vsum (bget b 0) (bget b 1) :: tl (tl b) in
      mkAlt (a_end (l_a l)) (l_n l) (b' ++ [vzero]) vzero (l_qs l) [] (l_decayed l) (l_T l)
  | d =>
      let dl := map (vdecay d (l_T l)) b in
      let tot := fold_left (fun acc x => vsum acc (snd x)) (tl (tl dl))
                   (vsum (vsum vzero (snd (nth 1 dl (vzero, vzero)))) (snd (nth 0 dl (vzero, vzero)))) in
      let b' := vsum (fst (nth 1 dl (vzero, vzero))) (fst (nth 0 dl (vzero, vzero))) :: map fst (tl (tl dl)) in
      mkAlt (a_end (l_a l)) (l_n l) (b' ++ [vzero]) vzero (l_qs l) d tot (l_T l)
  end.

(* one operation on a stand-alone AltQueueArc / DecayArcAlt (pulls are not supported by the class) *)
Definition alt_do (l : altarc) (s : S) (o : aop) : altarc * S * vqip :=
  match o with
  | APush v f time => l_send_push l s v f time
  | APull _ _ => (l, s, vzero)
  | APushCheck ov => (l, s, a_excess_push (l_a l) s ov)
  | APullCheck ov => (l, s, a_excess_pull (l_a l) s ov)
  | AEnd => (l_end l, s, vzero)
  | ADs => let '(l', d) := l_ds l in (l', s, d)
  | ASetT T => (l_set_T l T, s, vzero)
  end.
End Ports.
