(* TimeAreaLaws.v — laws of the nodes built on a queue tank (TimeArea.v): whoever reaches into the queue tank keeps
   its ledger.  `qledger` (DecayQTank.v): what the tank declares to hold = what has arrived + what is in its queue +
   the decay its queue has applied and the next close-out still has to book. *)
From Coq Require Import QArith Qminmax Lqa List Bool Arith.
From WSI Require Import Vqip Pow Tank Arc QTank Distrib Kinds TimeArea TankLaws ArcLaws QTankLaws DecayStores DecayQTank.
Import ListNotations.
Open Scope Q_scope.

Section Laws.
Variable S : Type.
Variable P : port S.
Variable maxiter : nat.
Notation qnode := (qnode S).

(* ---------------- abstraction from a time-area groundwater store (pull_set_active) ---------------- *)
Lemma pull_buckets_spec c : conserved c -> forall b share pulled,
  csum c (fst (pull_buckets b share pulled)) + cmp c (snd (pull_buckets b share pulled)) == csum c b + cmp c pulled.
Proof.
  intros Hc. induction b as [|x r IH]; intros share pulled; cbn [pull_buckets fst snd csum]; [ring|].
  specialize (IH share (vsum pulled (vchange x (vol x * share)))).
  destruct (pull_buckets r share (vsum pulled (vchange x (vol x * share)))) as [r' p'].
  cbn [fst snd csum] in *. rewrite cmp_sub by exact Hc. rewrite cmp_sum in IH by exact Hc. lra.
Qed.

(* the abstraction hands out exactly what the tank gives up, and the tank still declares what it holds plus the
   decay still to be booked: nothing of the pending decay is dropped or rescaled *)
Theorem qg_pull_ledger (n : qnode) q : qledger (qn_t S n) ->
  qledger (qn_t S (fst (qg_pull_set S n q))) /\
  (forall c, conserved c ->
     cmp c (snd (qg_pull_set S n q)) == cmp c (s_sto (qt_s (qn_t S n))) - cmp c (s_sto (qt_s (qn_t S (fst (qg_pull_set S n q)))))) /\
  l_decayed (qt_l (qn_t S (fst (qg_pull_set S n q)))) = l_decayed (qt_l (qn_t S n)).
Proof.
  intros L. unfold qg_pull_set.
  destruct (Qltb (Qmin (vol (s_sto (qt_s (qn_t S n)))) q) eps).
  - cbn [fst snd]. split; [exact L | split; [|reflexivity]]. intros c Hc. rewrite cmp_zero. ring.
  - set (share := Qmin (vol (s_sto (qt_s (qn_t S n)))) q / vol (s_sto (qt_s (qn_t S n)))).
    pose proof (fun c Hc => pull_buckets_spec c Hc (l_b (qt_l (qn_t S n))) share vzero) as HB.
    destruct (pull_buckets (l_b (qt_l (qn_t S n))) share vzero) as [b' pulled].
    cbn [fst snd] in *. unfold qn_set_t, qn_with. cbn [qn_t qt_s qt_l s_sto s_act l_b l_decayed].
    split; [|split; [|reflexivity]].
    + intros c Hc. cbn [qt_s qt_l s_sto s_act l_b l_decayed]. rewrite !cmp_sub, cmp_sum by exact Hc.
      pose proof (HB c Hc) as H1. rewrite cmp_zero in H1. pose proof (L c Hc) as H2. lra.
    + intros c Hc. rewrite cmp_sub by exact Hc. ring.
Qed.

(* ---------------- time-area pushes (push_set_land, push_set_timearea) ---------------- *)
Lemma ta_push_ledger ta : forall (t : qtank) v reply, wet v -> (forall tf, In tf ta -> 0 <= snd tf <= 1) ->
  qledger t /\ plain_quiet t -> qledger (fst (ta_push t v ta reply)) /\ plain_quiet (fst (ta_push t v ta reply)).
Proof.
  induction ta as [|[time f] r IH]; intros t v reply Hw Hf H; cbn [ta_push]; [exact H|].
  assert (Hfr : 0 <= f <= 1) by (apply (Hf (time, f)); left; reflexivity).
  assert (Hwf : wet (vchange v (vol v * f))).
  { apply wet_part; [exact Hw|]. destruct Hw as [Hn _]. pose proof (Hn SVol I) as H0. cbn [cmp] in H0. nra. }
  pose proof (qtank_do_ledger t (QPush (vchange v (vol v * f)) time false) Hwf H) as H1. cbn [qtank_do] in H1.
  destruct (qt_push t (vchange v (vol v * f)) time false) as [t' r_]. cbn [fst] in H1.
  apply IH; [exact Hw | intros tf Hin; apply Hf; right; exact Hin | exact H1].
Qed.

Theorem qn_push_timearea_ledger (n : qnode) v : wet v -> (forall tf, In tf (qn_ta S n) -> 0 <= snd tf <= 1) ->
  qledger (qn_t S n) /\ plain_quiet (qn_t S n) ->
  qledger (qn_t S (fst (qn_push_timearea S n v))) /\ plain_quiet (qn_t S (fst (qn_push_timearea S n v))).
Proof.
  intros Hw Hf H. unfold qn_push_timearea.
  pose proof (ta_push_ledger (qn_ta S n) (qn_t S n) v vzero Hw Hf H) as H1.
  destruct (ta_push (qn_t S n) v (qn_ta S n) vzero) as [t' r]. exact H1.
Qed.

End Laws.
