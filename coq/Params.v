(* Params.v — executable models of how components hold their parameters: what a
   constructor derives from its arguments, what apply_overrides recomputes, and
   what Model.save reads back as constructor arguments (C14, C15).

     Tank, Arc                      wsimod/nodes/tanks.py, wsimod/arcs/arcs.py
     Surface, ImperviousSurface,
     PerviousSurface                wsimod/nodes/land.py
     Storage, River                 wsimod/nodes/storage.py
     WTW                            wsimod/nodes/wtw.py
     save of each                   wsimod/orchestration/model.py Model.save

   An override dictionary is a record of options (None = key absent); a dict-valued
   parameter (pollutant_load) is a list of options indexed by pollutant (None = key
   absent) and is merged key by key.  Computed fields are normalised with Qred, so
   that the laws in ParamLaws.v are plain equalities.  Model file: definitions only. *)
From Coq Require Import QArith List Bool.
Import ListNotations.
Open Scope Q_scope.

Definition ov (o : option Q) (cur : Q) : Q := match o with Some v => v | None => cur end.
Definition qmul (a b : Q) : Q := Qred (a * b).
Definition qdiv (a b : Q) : Q := Qred (a / b).
Definition qsub (a b : Q) : Q := Qred (a - b).

(* dict.update, key by key *)
Definition dict := list (option Q).
Fixpoint dupdate (cur upd : dict) {struct cur} : dict :=
  match cur, upd with
  | [], _ => upd
  | _, [] => cur
  | c :: cur', u :: upd' => (match u with Some v => Some v | None => c end) :: dupdate cur' upd'
  end.

(* ------------------------------------------------------------------ Tank *)
Record ptank := mkPT { pt_cap : Q; pt_area : Q; pt_datum : Q }.
Record otank := mkOT { ot_cap : option Q; ot_area : option Q; ot_datum : option Q }.
Definition tank_mk (a : ptank) : ptank := a.
Definition tank_ov (t : ptank) (o : otank) : ptank :=
  mkPT (ov (ot_cap o) (pt_cap t)) (ov (ot_area o) (pt_area t)) (ov (ot_datum o) (pt_datum t)).
Definition tank_merge (a : ptank) (o : otank) : ptank := tank_ov a o.

(* ------------------------------------------------------------------- Arc *)
Record parc := mkPA { pa_cap : Q; pa_pref : Q }.
Record oarc := mkOA { oa_cap : option Q; oa_pref : option Q }.
Definition arc_mk (a : parc) : parc := a.
Definition arc_ov (t : parc) (o : oarc) : parc := mkPA (ov (oa_cap o) (pa_cap t)) (ov (oa_pref o) (pa_pref t)).
Definition arc_merge (a : parc) (o : oarc) : parc := arc_ov a o.
Definition arc_save (t : parc) : parc := t.

(* --------------------------------------------------------------- Surface *)
Record asurf := mkAS { as_area : Q; as_depth : Q; as_load : dict }.
Record psurf := mkPS { s_area : Q; s_depth : Q; s_cap : Q; s_load : dict }.
(* 'capacity' in an override is ignored with a warning *)
Record osurf := mkOS { os_area : option Q; os_depth : option Q; os_cap : option Q; os_load : dict }.
Definition surf_mk (a : asurf) : psurf :=
  mkPS (as_area a) (as_depth a) (qmul (as_area a) (as_depth a)) (as_load a).
Definition surf_ov (s : psurf) (o : osurf) : psurf :=
  let area := ov (os_area o) (s_area s) in
  let depth := ov (os_depth o) (s_depth s) in
  mkPS area depth (qmul area depth) (dupdate (s_load s) (os_load o)).
Definition surf_merge (a : asurf) (o : osurf) : asurf :=
  mkAS (ov (os_area o) (as_area a)) (ov (os_depth o) (as_depth a)) (dupdate (as_load a) (os_load o)).
(* Model.save: attributes named like the constructor arguments, capacity removed *)
Definition surf_save (s : psurf) : asurf := mkAS (s_area s) (s_depth s) (s_load s).

(* ----------------------------------------------------- ImperviousSurface *)
Record aimp := mkAI { ai_area : Q; ai_pore : Q; ai_e : Q; ai_load : dict }.
Record pimp := mkPI { i_area : Q; i_pore : Q; i_depth : Q; i_cap : Q; i_e : Q; i_load : dict }.
(* 'depth' and 'capacity' in an override are ignored with a message *)
Record oimp := mkOI { oi_area : option Q; oi_pore : option Q; oi_e : option Q; oi_depth : option Q;
                      oi_cap : option Q; oi_load : dict }.
Definition imp_mk (a : aimp) : pimp :=
  mkPI (ai_area a) (ai_pore a) (ai_pore a) (qmul (ai_area a) (ai_pore a)) (ai_e a) (ai_load a).
Definition imp_ov (s : pimp) (o : oimp) : pimp :=
  let e := ov (oi_e o) (i_e s) in
  let pore := ov (oi_pore o) (i_pore s) in
  (* Surface.apply_overrides: area, then depth (the key was popped: stays), capacity *)
  let area := ov (oi_area o) (i_area s) in
  mkPI area pore pore (qmul area pore) e (dupdate (i_load s) (oi_load o)).
Definition imp_merge (a : aimp) (o : oimp) : aimp :=
  mkAI (ov (oi_area o) (ai_area a)) (ov (oi_pore o) (ai_pore a)) (ov (oi_e o) (ai_e a)) (dupdate (ai_load a) (oi_load o)).
(* save: 'pore_depth' is a constructor argument, so 'depth' and 'capacity' are removed *)
Definition imp_save (s : pimp) : aimp := mkAI (i_area s) (i_pore s) (i_e s) (i_load s).

(* ------------------------------------------------------- PerviousSurface *)
Record aperv := mkAP { ap_area : Q; ap_depth : Q; ap_tp : Q; ap_fc : Q; ap_wp : Q; ap_perc : Q;
                       ap_inf : Q; ap_load : dict }.
(* v_depth is the simulation depth: physical depth x total porosity *)
Record pperv := mkPP { v_area : Q; v_depth : Q; v_cap : Q; v_tp : Q; v_fc : Q; v_fcm : Q; v_wp : Q;
                       v_wpm : Q; v_perc : Q; v_subs : Q; v_inf : Q; v_load : dict }.
Record operv := mkOP { op_area : option Q; op_depth : option Q; op_tp : option Q; op_fc : option Q;
                       op_wp : option Q; op_perc : option Q; op_inf : option Q; op_cap : option Q;
                       op_load : dict }.
Definition perv_mk (a : aperv) : pperv :=
  let d := qmul (ap_depth a) (ap_tp a) in
  mkPP (ap_area a) d (qmul (ap_area a) d) (ap_tp a) (ap_fc a) (qmul (ap_fc a) (ap_depth a)) (ap_wp a)
       (qmul (ap_wp a) (ap_depth a)) (ap_perc a) (qsub 1 (ap_perc a)) (ap_inf a) (ap_load a).
(* None: division by a zero porosity (ZeroDivisionError) *)
Definition perv_ov (s : pperv) (o : operv) : option pperv :=
  if Qeq_bool (v_tp s) 0 then None else
  let phys := qdiv (v_depth s) (v_tp s) in            (* restore the physical depth *)
  let fc := ov (op_fc o) (v_fc s) in
  let wp := ov (op_wp o) (v_wp s) in
  let tp := ov (op_tp o) (v_tp s) in
  let inf := ov (op_inf o) (v_inf s) in
  let perc := ov (op_perc o) (v_perc s) in
  let area := ov (op_area o) (v_area s) in             (* Surface.apply_overrides *)
  let depth := ov (op_depth o) phys in
  let d := qmul depth tp in
  Some (mkPP area d (qmul d area) tp fc (qmul fc depth) wp (qmul wp depth) perc (qsub 1 perc) inf
             (dupdate (v_load s) (op_load o))).
Definition perv_merge (a : aperv) (o : operv) : aperv :=
  mkAP (ov (op_area o) (ap_area a)) (ov (op_depth o) (ap_depth a)) (ov (op_tp o) (ap_tp a)) (ov (op_fc o) (ap_fc a))
       (ov (op_wp o) (ap_wp a)) (ov (op_perc o) (ap_perc a)) (ov (op_inf o) (ap_inf a)) (dupdate (ap_load a) (op_load o)).
(* save: depth is written as the physical depth (attribute / porosity) *)
Definition perv_save (s : pperv) : option aperv :=
  if Qeq_bool (v_tp s) 0 then None else
  Some (mkAP (v_area s) (qdiv (v_depth s) (v_tp s)) (v_tp s) (v_fc s) (v_wp s) (v_perc s) (v_inf s) (v_load s)).
(* the save of the tree before the repair: the attribute itself *)
Definition perv_save_attr (s : pperv) : aperv :=
  mkAP (v_area s) (v_depth s) (v_tp s) (v_fc s) (v_wp s) (v_perc s) (v_inf s) (v_load s).

(* --------------------------------------------------------------- Storage *)
Record pstore := mkPSt { n_cap : Q; n_area : Q; n_datum : Q; n_tank : ptank }.
Definition store_mk (a : ptank) : pstore := mkPSt (pt_cap a) (pt_area a) (pt_datum a) a.
Definition store_ov (s : pstore) (o : otank) : pstore :=
  mkPSt (ov (ot_cap o) (n_cap s)) (ov (ot_area o) (n_area s)) (ov (ot_datum o) (n_datum s)) (tank_ov (n_tank s) o).
Definition store_save (s : pstore) : ptank := mkPT (n_cap s) (n_area s) (n_datum s).

(* ----------------------------------------------------------------- River *)
Record ariver := mkAR { ar_len : Q; ar_wid : Q; ar_vel : Q; ar_damp : Q; ar_mrf : Q; ar_datum : Q }.
Record priver := mkPR { r_len : Q; r_wid : Q; r_vel : Q; r_damp : Q; r_mrf : Q; r_store : pstore }.
(* 'area' and 'capacity' in an override are replaced (length x width, unbounded) *)
Record oriver := mkOR { or_len : option Q; or_wid : option Q; or_vel : option Q; or_damp : option Q;
                        or_mrf : option Q; or_datum : option Q; or_area : option Q; or_cap : option Q }.
Definition river_mk (unbounded : Q) (a : ariver) : priver :=
  mkPR (ar_len a) (ar_wid a) (ar_vel a) (ar_damp a) (ar_mrf a)
       (store_mk (mkPT unbounded (qmul (ar_len a) (ar_wid a)) (ar_datum a))).
Definition river_ov (unbounded : Q) (s : priver) (o : oriver) : priver :=
  let len := ov (or_len o) (r_len s) in
  let wid := ov (or_wid o) (r_wid s) in
  mkPR len wid (ov (or_vel o) (r_vel s)) (ov (or_damp o) (r_damp s)) (ov (or_mrf o) (r_mrf s))
       (store_ov (r_store s) (mkOT (Some unbounded) (Some (qmul len wid)) (or_datum o))).
Definition river_merge (a : ariver) (o : oriver) : ariver :=
  mkAR (ov (or_len o) (ar_len a)) (ov (or_wid o) (ar_wid a)) (ov (or_vel o) (ar_vel a)) (ov (or_damp o) (ar_damp a))
       (ov (or_mrf o) (ar_mrf a)) (ov (or_datum o) (ar_datum a)).
Definition river_save (s : priver) : ariver :=
  mkAR (r_len s) (r_wid s) (r_vel s) (r_damp s) (r_mrf s) (n_datum (r_store s)).

(* ------------------------------------------------------------------- WTW *)
(* percent_solids, the 'volume' entry of liquor_multiplier, treatment_throughput_capacity;
   derived: process_parameters['volume']['constant'] = 1 - percent_solids - liquor volume *)
Record awtw := mkAW { aw_solids : Q; aw_liquor : Q; aw_through : Q }.
Record pwtw := mkPW { w_solids : Q; w_liquor : Q; w_through : Q; w_volc : Q }.
Record owtw := mkOW { ow_solids : option Q; ow_liquor : option Q; ow_through : option Q }.
Definition wtw_volc (solids liquor : Q) : Q := Qred (1 - solids - liquor).
Definition wtw_mk (a : awtw) : pwtw := mkPW (aw_solids a) (aw_liquor a) (aw_through a) (wtw_volc (aw_solids a) (aw_liquor a)).
Definition wtw_ov (s : pwtw) (o : owtw) : pwtw :=
  let solids := ov (ow_solids o) (w_solids s) in
  let liquor := ov (ow_liquor o) (w_liquor s) in
  mkPW solids liquor (ov (ow_through o) (w_through s)) (wtw_volc solids liquor).
Definition wtw_merge (a : awtw) (o : owtw) : awtw :=
  mkAW (ov (ow_solids o) (aw_solids a)) (ov (ow_liquor o) (aw_liquor a)) (ov (ow_through o) (aw_through a)).
Definition wtw_save (s : pwtw) : awtw := mkAW (w_solids s) (w_liquor s) (w_through s).

(* ------------------------------------------------------------------------
   Who owns a dict-valued parameter.  Cells hold dictionaries; cell 0 is the
   default argument object of the constructor (one per function, alive for the
   whole process); an instance refers to a cell.  apply_overrides updates the
   cell its instance refers to, in place. *)
Record world := mkW { cells : list dict; insts : list nat }.
Definition world0 (default : dict) : world := mkW [default] [].
Definition cell (w : world) (c : nat) : dict := nth c (cells w) [].
Definition view (w : world) (i : nat) : dict := cell w (nth i (insts w) 0%nat).
(* constructor that stores a copy of what it is given (None: the default argument) *)
Definition construct_copy (w : world) (given : option dict) : world :=
  let d := match given with Some d => d | None => cell w 0 end in
  mkW (cells w ++ [d]) (insts w ++ [length (cells w)]).
(* constructor that stores the object it is given: by default, the default object itself *)
Definition construct_alias (w : world) (given : option dict) : world :=
  match given with
  | Some d => mkW (cells w ++ [d]) (insts w ++ [length (cells w)])
  | None => mkW (cells w) (insts w ++ [0%nat])
  end.
Fixpoint set_nth {A} (l : list A) (k : nat) (x : A) : list A :=
  match l, k with
  | [], _ => []
  | _ :: l', O => x :: l'
  | y :: l', S k' => y :: set_nth l' k' x
  end.
Definition override_dict (w : world) (i : nat) (upd : dict) : world :=
  let c := nth i (insts w) 0%nat in
  mkW (set_nth (cells w) c (dupdate (cell w c) upd)) (insts w).
Inductive wop := WNew (given : option dict) | WOverride (i : nat) (upd : dict).
Definition wstep (alias : bool) (w : world) (o : wop) : world :=
  match o with
  | WNew g => if alias then construct_alias w g else construct_copy w g
  | WOverride i u => if Nat.ltb i (length (insts w)) then override_dict w i u else w
  end.
