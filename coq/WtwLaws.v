(* WtwLaws.v — laws of the treatment works model (Wtw.v).
   (1) the treatment step conserves: what goes in comes out as effluent, liquor and solids - volume and every additive
       pollutant, whatever the process parameters and the temperature;
   (2) the sewer push check of a WWTW is honest: any push up to the room it reports (throughput still free plus room in
       the stormwater tank) is taken in full. *)
From Coq Require Import QArith Qminmax Lqa List Bool Arith.
From WSI Require Import Vqip Pow Tank Arc Distrib Kinds Wtw TankLaws ArcLaws QueueLaws DistribLaws.
From WSI Require Run.
Import ListNotations.
Open Scope Q_scope.

Theorem w_treat_conserves p influent treated liquor c : conserved c ->
  let '(treated', liquor', solids) := w_treat p influent treated liquor in
  (cmp c treated' - cmp c treated) + cmp c liquor' + cmp c solids == cmp c influent.
Proof.
  intros Hc. unfold w_treat. cbn zeta.
  rewrite cmp_sum by exact Hc. rewrite !cmp_norm.
  destruct c as [|k|k]; [| |destruct Hc]; cbn [cmp vol adds].
  - unfold w_volconst. ring.
  - repeat (rewrite get_vmap2 by (try reflexivity; lra)). ring.
Qed.

Section Wwtw.
Variable S : Type.

Definition ww_room (w : wwtw S) : Q := vol (t_get_excess (ww_tank S w) None) + ww_excess_throughput S w.

Theorem ww_check_is_honest (w : wwtw S) v : 0 <= vol v -> vol v <= ww_room w ->
  vol (snd (ww_push_set S w v)) == 0 /\
  (* and the check itself reports min(room, offer) *)
  vol (ww_push_check S w (Some v)) == Qmin (ww_room w) (vol v).
Proof.
  intros Hv Hroom. split.
  - unfold ww_push_set.
    set (exc := ww_excess_throughput S w) in *.
    set (direct := vchange v (Qmin exc (vol v))).
    destruct (Qeq_bool (vol direct) (vol v)) eqn:E; cbn [snd]; [unfold vzero; cbn [vol]; reflexivity|].
    destruct (t_push (ww_tank S w) (vchange v (vol v - vol direct)) false) as [t' back] eqn:Et. cbn [snd].
    destruct (Qltb (vol back) eps); [unfold vzero; cbn [vol]; reflexivity|].
    pose proof (t_push_reply_vol (ww_tank S w) (vchange v (vol v - vol direct))) as Hr. rewrite Et in Hr. cbn [snd] in Hr.
    rewrite Hr. rewrite vol_change. unfold direct. rewrite vol_change.
    unfold ww_room in Hroom. rewrite (t_excess_vol (ww_tank S w) None) in Hroom. fold exc in Hroom.
    assert (Hexc : 0 <= exc) by (unfold exc, ww_excess_throughput; apply Q.le_max_r).
    spec_max (t_cap (ww_tank S w) - vol (t_sto (ww_tank S w))) 0;
      (destruct (Q.min_spec exc (vol v)) as [[Hlt Hm]|[Hle Hm]]; apply Q.max_r; lra).
  - unfold ww_push_check. rewrite vol_change. unfold ww_room. reflexivity.
Qed.

(* calculate_discharge creates and loses nothing: the input of the timestep, the liquor carried over and what is
   cleared from the stormwater tank come out as treated water, new liquor and solids - volume and every additive
   pollutant (the node's declared balance: arcs in - arcs out - solids = change in tank + change in liquor) *)
Theorem ww_calculate_conserves (w : wwtw S) c : conserved c -> nonneg (t_sto (ww_tank S w)) ->
  let w' := ww_calculate_discharge S w in
  (cmp c (ww_treated S w') - cmp c (ww_treated S w)) + cmp c (ww_liquor S w') + cmp c (ww_solids S w')
    + cmp c (t_sto (ww_tank S w')) ==
  cmp c (ww_cur S w) + cmp c (ww_liquor S w) + cmp c (t_sto (ww_tank S w)).
Proof.
  intros Hc Hn. unfold ww_calculate_discharge. cbn zeta.
  set (exc := ww_excess_throughput S w). set (av := vol (t_get_avail (ww_tank S w) None)).
  destruct (Qltb eps av && Qltb eps exc).
  - assert (Hq : 0 <= Qmin exc av).
    { apply Q.min_glb; [unfold exc, ww_excess_throughput; apply Q.le_max_r|].
      unfold av, t_get_avail. apply (Hn SVol I). }
    destruct (t_pull_spec (ww_tank S w) (Qmin exc av) c Hc Hn Hq) as (_ & Hs & _).
    destruct (t_pull (ww_tank S w) (Qmin exc av)) as [t' cleared]. cbn [fst snd] in Hs.
    pose proof (w_treat_conserves (ww_p S w) (vsum (vsum (ww_cur S w) cleared) (ww_liquor S w)) (ww_treated S w) (ww_liquor S w) c Hc) as HT.
    destruct (w_treat (ww_p S w) (vsum (vsum (ww_cur S w) cleared) (ww_liquor S w)) (ww_treated S w) (ww_liquor S w)) as [[tr lq] so].
    unfold ww_set. cbn [ww_treated ww_liquor ww_solids ww_tank]. rewrite !cmp_sum in HT by exact Hc. rewrite Hs. lra.
  - pose proof (w_treat_conserves (ww_p S w) (vsum (ww_cur S w) (ww_liquor S w)) (ww_treated S w) (ww_liquor S w) c Hc) as HT.
    destruct (w_treat (ww_p S w) (vsum (ww_cur S w) (ww_liquor S w)) (ww_treated S w) (ww_liquor S w)) as [[tr lq] so].
    unfold ww_set. cbn [ww_treated ww_liquor ww_solids ww_tank]. rewrite !cmp_sum in HT by exact Hc. lra.
Qed.

End Wwtw.

(* ---------------- FWTW.treat_water ---------------- *)
(* The books of the fresh-water works for one treat_water, against ANY neighbours meeting the reply contract: what the
   service reservoir gains, plus what the out-arcs record as sent to sewers (liquor and solids), plus what is booked as
   not taken by the sewers, equals what the in-arcs record as abstracted, plus what is booked as made up (the deficit),
   plus treated water still on the books from before (nothing after a close-out) - volume and every additive pollutant,
   whatever the process parameters and the temperature.  Hypotheses: the throughput capacity is not negative; the two
   fluxes the works hand on in this step - the treated water and the waste - are wet (no pollutant mass without water:
   well-formed process parameters; the treatment step itself conserves under any parameters, w_treat_conserves). *)
Section FwtwLaws.
Variable S : Type.
Variable P : port S.
Variable K : contract S P.
Hypothesis wet_replies : forall s v, okS S P K s -> wet v ->
  forall k, vol (snd (p_push_set P s v)) <= 0 -> get (adds (snd (p_push_set P s v))) k == 0.
Variable maxiter : nat.
Notation star_ok := (star_ok S P K).
Notation sumvin := (sumvin S).

Theorem fw_treat_water_books (f f' : fwtw S) c : conserved c ->
  star_ok (fw_ins S f) -> star_ok (fw_outs S f) -> 0 <= w_cap (fw_p S f) ->
  fw_treat_water S P maxiter f = Some f' ->
  wet (fw_treated S f') -> wet (vsum (fw_liquor S f') (fw_solids S f')) ->
  (cmp c (t_sto (fw_tank S f')) - cmp c (t_sto (fw_tank S f)))
  + (sumvin c (fw_outs S f') - sumvin c (fw_outs S f))
  + (cmp c (fw_unpushed S f') - cmp c (fw_unpushed S f))
  ==
  (sumvin c (fw_ins S f') - sumvin c (fw_ins S f))
  + (cmp c (fw_deficit S f') - cmp c (fw_deficit S f))
  + cmp c (fw_treated S f).
Proof.
  intros Hc Hi Ho Hcap Hrun Hwt Hww. unfold fw_treat_water in Hrun.
  set (target := Qmin (vol (t_get_excess (fw_tank S f) None)) (w_cap (fw_p S f))) in *.
  assert (Ht : 0 <= target).
  { unfold target. apply Q.min_glb; [|exact Hcap]. rewrite t_excess_vol. apply Q.le_max_r. }
  destruct (pull_distributed S P maxiter None (fw_ins S f) target) as [[[ins' thr] m1]|] eqn:Ep; [|discriminate].
  destruct (pull_distributed_spec S P K maxiter None _ _ _ _ _ Hi Ht Ep) as (_ & _ & _ & Vp & _).
  set (deficit := vchange (fw_prev_pulled S f) (Qmax (target - vol thr) 0)) in *.
  pose proof (w_treat_conserves (fw_p S f) (vsum thr deficit) (fw_treated S f) (fw_liquor S f) c Hc) as HT.
  destruct (w_treat (fw_p S f) (vsum thr deficit) (fw_treated S f) (fw_liquor S f)) as [[tr lq] so] eqn:Et.
  destruct (push_distributed S P maxiter (Some [T_SEWER]) (fw_outs S f) (vsum lq so)) as [[[outs' rej] m2]|] eqn:Eq; [|discriminate].
  destruct (t_push (fw_tank S f) tr false) as [t1 excess] eqn:E1.
  destruct (t_push t1 excess true) as [t2 r2] eqn:E2.
  inversion Hrun; subst f'. clear Hrun.
  cbn [fw_tank fw_outs fw_ins fw_unpushed fw_deficit fw_treated fw_liquor fw_solids] in *.
  destruct (push_distributed_spec S P K wet_replies maxiter _ _ _ _ _ _ Ho Hww Eq) as (_ & _ & _ & Vo & _).
  pose proof (t_push_conserves (fw_tank S f) tr c Hc Hwt) as H1. rewrite E1 in H1. cbn [fst snd] in H1.
  pose proof (proj1 (t_push_forced t1 excess c Hc)) as H2. rewrite E2 in H2. cbn [fst] in H2.
  rewrite (Vp c Hc), (Vo c Hc). rewrite !cmp_sum by exact Hc. rewrite !cmp_sum in HT by exact Hc.
  lra.
Qed.

End FwtwLaws.

(* the hypotheses of fw_treat_water_books are met by a concrete works: one additive pollutant, 60 % of it kept in the
   effluent, 20 % in the liquor, throughput 8, nothing to abstract from (the whole throughput is made up) *)
Definition fw_example_params := mkWP (8#1) (1#10) (1#20) [1#5] [3#5] [1#1].
Definition fw_example : fwtw (Run.nb * Run.nb) :=
  mkFW _ fw_example_params vzero vzero (mkV (1#2) [1#10] [12#1]) vzero vzero vzero (mkV (4#1) [1#1] [15#1]) vzero
       (mkT (20#1) (mkV (5#1) [1#2] [10#1]) (mkV (5#1) [1#2] [10#1]) [] vzero 0) [] [].
Lemma wet_lit_any x a ns : 0 < x -> 0 <= a -> wet (mkV x [a] ns).
Proof.
  intros Hx Ha. split.
  - intros c Hc. destruct c as [|k|k]; [cbn; lra | | destruct Hc]. destruct k as [|[|k]]; cbn; lra.
  - cbn [vol]. intros H; lra.
Qed.
Example fw_example_ok : exists f',
  fw_treat_water _ Run.nbport 10 fw_example = Some f' /\ 0 <= w_cap (fw_p _ fw_example) /\
  wet (fw_treated _ f') /\ wet (vsum (fw_liquor _ f') (fw_solids _ f')) /\ 0 < vol (fw_deficit _ f').
Proof.
  eexists. split; [vm_compute; reflexivity|]. cbn [fw_treated fw_liquor fw_solids fw_deficit fw_p fw_example w_cap fw_example_params].
  split; [lra|]. split; [apply wet_lit_any; lra|]. split; [|cbn; lra].
  vm_compute vsum. apply wet_lit_any; lra.
Qed.
