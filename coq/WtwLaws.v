(* WtwLaws.v — laws of the treatment works model (Wtw.v).
   (1) the treatment step conserves: what goes in comes out as effluent, liquor and solids - volume and every additive
       pollutant, whatever the process parameters and the temperature;
   (2) the sewer push check of a WWTW is honest: any push up to the room it reports (throughput still free plus room in
       the stormwater tank) is taken in full. *)
From Coq Require Import QArith Qminmax Lqa List Bool Arith.
From WSI Require Import Vqip Pow Tank Arc Distrib Kinds Wtw TankLaws ArcLaws QueueLaws.
Import ListNotations.
Open Scope Q_scope.

Theorem w_treat_conserves p influent treated liquor c : conserved c ->
  let '(treated', liquor', solids) := w_treat p influent treated liquor in
  (cmp c treated' - cmp c treated) + cmp c liquor' + cmp c solids == cmp c influent.
Proof.
  intros Hc. unfold w_treat. cbn zeta.
  rewrite cmp_sum by exact Hc. rewrite !cmp_norm.
  destruct c as [|k|k]; [| |destruct Hc]; cbn [cmp vol adds].
  - unfold w_volconst. ring.
  - repeat (rewrite get_vmap2 by (try reflexivity; lra)). ring.
Qed.

Section Wwtw.
Variable S : Type.

Definition ww_room (w : wwtw S) : Q := vol (t_get_excess (ww_tank S w) None) + ww_excess_throughput S w.

Theorem ww_check_is_honest (w : wwtw S) v : 0 <= vol v -> vol v <= ww_room w ->
  vol (snd (ww_push_set S w v)) == 0 /\
  (* and the check itself reports min(room, offer) *)
  vol (ww_push_check S w (Some v)) == Qmin (ww_room w) (vol v).
Proof.
  intros Hv Hroom. split.
  - unfold ww_push_set.
    set (exc := ww_excess_throughput S w) in *.
    set (direct := vchange v (Qmin exc (vol v))).
    destruct (Qeq_bool (vol direct) (vol v)) eqn:E; cbn [snd]; [unfold vzero; cbn [vol]; reflexivity|].
    destruct (t_push (ww_tank S w) (vchange v (vol v - vol direct)) false) as [t' back] eqn:Et. cbn [snd].
    destruct (Qltb (vol back) eps); [unfold vzero; cbn [vol]; reflexivity|].
    pose proof (t_push_reply_vol (ww_tank S w) (vchange v (vol v - vol direct))) as Hr. rewrite Et in Hr. cbn [snd] in Hr.
    rewrite Hr. rewrite vol_change. unfold direct. rewrite vol_change.
    unfold ww_room in Hroom. rewrite (t_excess_vol (ww_tank S w) None) in Hroom. fold exc in Hroom.
    assert (Hexc : 0 <= exc) by (unfold exc, ww_excess_throughput; apply Q.le_max_r).
    spec_max (t_cap (ww_tank S w) - vol (t_sto (ww_tank S w))) 0;
      (destruct (Q.min_spec exc (vol v)) as [[Hlt Hm]|[Hle Hm]]; apply Q.max_r; lra).
  - unfold ww_push_check. rewrite vol_change. unfold ww_room. reflexivity.
Qed.

(* calculate_discharge creates and loses nothing: the input of the timestep, the liquor carried over and what is
   cleared from the stormwater tank come out as treated water, new liquor and solids - volume and every additive
   pollutant (the node's declared balance: arcs in - arcs out - solids = change in tank + change in liquor) *)
Theorem ww_calculate_conserves (w : wwtw S) c : conserved c -> nonneg (t_sto (ww_tank S w)) ->
  let w' := ww_calculate_discharge S w in
  (cmp c (ww_treated S w') - cmp c (ww_treated S w)) + cmp c (ww_liquor S w') + cmp c (ww_solids S w')
    + cmp c (t_sto (ww_tank S w')) ==
  cmp c (ww_cur S w) + cmp c (ww_liquor S w) + cmp c (t_sto (ww_tank S w)).
Proof.
  intros Hc Hn. unfold ww_calculate_discharge. cbn zeta.
  set (exc := ww_excess_throughput S w). set (av := vol (t_get_avail (ww_tank S w) None)).
  destruct (Qltb eps av && Qltb eps exc).
  - assert (Hq : 0 <= Qmin exc av).
    { apply Q.min_glb; [unfold exc, ww_excess_throughput; apply Q.le_max_r|].
      unfold av, t_get_avail. apply (Hn SVol I). }
    destruct (t_pull_spec (ww_tank S w) (Qmin exc av) c Hc Hn Hq) as (_ & Hs & _).
    destruct (t_pull (ww_tank S w) (Qmin exc av)) as [t' cleared]. cbn [fst snd] in Hs.
    pose proof (w_treat_conserves (ww_p S w) (vsum (vsum (ww_cur S w) cleared) (ww_liquor S w)) (ww_treated S w) (ww_liquor S w) c Hc) as HT.
    destruct (w_treat (ww_p S w) (vsum (vsum (ww_cur S w) cleared) (ww_liquor S w)) (ww_treated S w) (ww_liquor S w)) as [[tr lq] so].
    unfold ww_set. cbn [ww_treated ww_liquor ww_solids ww_tank]. rewrite !cmp_sum in HT by exact Hc. rewrite Hs. lra.
  - pose proof (w_treat_conserves (ww_p S w) (vsum (ww_cur S w) (ww_liquor S w)) (ww_treated S w) (ww_liquor S w) c Hc) as HT.
    destruct (w_treat (ww_p S w) (vsum (ww_cur S w) (ww_liquor S w)) (ww_treated S w) (ww_liquor S w)) as [[tr lq] so].
    unfold ww_set. cbn [ww_treated ww_liquor ww_solids ww_tank]. rewrite !cmp_sum in HT by exact Hc. lra.
Qed.

End Wwtw.
