(* DecayStores.v — C11 for the components that decay what they hold: the decay a
   DecayTank, DecayArc, DecayArcAlt (and with it a DecayQueueTank, whose queue is a
   DecayArcAlt) applies is the core function the C11 laws are about (vdecay_is_core:
   the store-level `vdecay` is the translated generic_temperature_decay with the
   executable power surrogate, normalised), and what it removes is exactly what it
   reports, at entry and at every close-out, for any number of parcels in transit. *)
From Coq Require Import QArith Qminmax Lqa List Bool.
From WSI Require Import Vqip Pow Tank Arc QTank TankLaws QTankLaws.
From WSI Require QueueLaws.
From WSI.gen Require Import GenCore.
Import ListNotations.
Open Scope Q_scope.

Lemma vdecay_is_core d T v :
  vdecay d T v = (vnorm (fst (gen_generic_temperature_decay pow_s v d T)),
                  vnorm (snd (gen_generic_temperature_decay pow_s v d T))).
Proof. reflexivity. Qed.

Section Alt.
Variables (S : Type) (P : port S).

(* entering a decaying travel-time arc: what is put in transit plus what decay reports is what entered *)
Lemma l_enter_decay (l : altarc) time v c : conserved c ->
  csum c (l_b (l_enter l time v)) + cmp c (l_decayed (l_enter l time v))
  == csum c (l_b l) + cmp c (l_decayed l) + cmp c v.
Proof.
  intros Hc. unfold l_enter. destruct (l_dec l) as [|p d] eqn:Ed.
  - cbn [l_b l_decayed]. rewrite csum_badd by exact Hc. ring.
  - pose proof (vdecay_conserved (p :: d) (l_T l) v c Hc) as Hd.
    destruct (vdecay (p :: d) (l_T l) v) as [v' diff]. cbn [fst snd] in Hd.
    cbn [l_b l_decayed]. rewrite csum_badd, cmp_sum by exact Hc. lra.
Qed.
(* ... and it only ever reports more *)
Lemma l_enter_frame (l : altarc) time v :
  l_dec (l_enter l time v) = l_dec l /\ l_T (l_enter l time v) = l_T l /\ l_n (l_enter l time v) = l_n l.
Proof.
  unfold l_enter. destruct (l_dec l) as [|p d]; [|destruct (vdecay (p :: d) (l_T l) v)]; repeat split.
Qed.

(* close-out of a decaying travel-time arc: every parcel in transit is decayed; what remains in
   transit plus the freshly reported decay is what was in transit *)
Lemma fold_decayed c d T : conserved c -> forall (b : list vqip) acc,
  cmp c (fold_left (fun a x => vsum a (snd x)) (map (vdecay d T) b) acc) + csum c (map fst (map (vdecay d T) b))
  == cmp c acc + csum c b.
Proof.
  intros Hc. induction b as [|x b IH]; intros acc; cbn [map fold_left csum]; [ring|].
  pose proof (IH (vsum acc (snd (vdecay d T x)))) as H1. rewrite cmp_sum in H1 by exact Hc.
  pose proof (vdecay_conserved d T x c Hc). lra.
Qed.

Lemma csum_snoc_zero c b : csum c (b ++ [vzero]) == csum c b.
Proof. rewrite csum_app. cbn [csum]. rewrite cmp_zero. ring. Qed.

Lemma l_end_decay (l : altarc) c : conserved c -> l_dec l <> [] ->
  csum c (l_b (l_end l)) + cmp c (l_decayed (l_end l)) == csum c (l_b l).
Proof.
  intros Hc Hne. unfold l_end. destruct (l_dec l) as [|p d] eqn:Ed; [congruence|].
  cbn [l_b l_decayed]. rewrite csum_snoc_zero.
  set (dd := p :: d). set (T := l_T l).
  destruct (l_b l) as [|x0 [|x1 b]].
  - cbn [map tl nth fold_left csum fst snd]. rewrite !cmp_sum, !cmp_zero by exact Hc. ring.
  - cbn [map tl nth fold_left csum fst snd]. rewrite !cmp_sum, !cmp_zero by exact Hc.
    pose proof (vdecay_conserved dd T x0 c Hc). lra.
  - cbn [map tl nth csum fst snd].
    pose proof (fold_decayed c dd T Hc b
                  (vsum (vsum vzero (snd (vdecay dd T x1))) (snd (vdecay dd T x0)))) as HF.
    rewrite !cmp_sum, cmp_zero in HF by exact Hc. rewrite cmp_sum by exact Hc.
    pose proof (vdecay_conserved dd T x0 c Hc). pose proof (vdecay_conserved dd T x1 c Hc). lra.
Qed.
End Alt.

(* n consecutive close-outs of a decaying tank at any temperatures, nothing else happening:
   what is left plus everything reported on the way is what was there *)
Fixpoint tank_closeouts (c : sel) (t : tank) (Ts : list Q) : tank * Q :=
  match Ts with
  | [] => (t, 0)
  | T :: r => let t1 := t_end t T in
              let '(t2, rep) := tank_closeouts c t1 r in
              (t2, (match t_dec t with [] => 0 | _ => cmp c (t_decayed t1) end) + rep)
  end.
Lemma t_end_dec t T : t_dec (t_end t T) = t_dec t.
Proof. unfold t_end. destruct (t_dec t) as [|p d]; [reflexivity|]. destruct (vdecay (p :: d) T (t_sto t)); reflexivity. Qed.
Theorem tank_closeouts_partition c : conserved c -> forall Ts t,
  cmp c (t_sto (fst (tank_closeouts c t Ts))) + snd (tank_closeouts c t Ts) == cmp c (t_sto t).
Proof.
  intros Hc. induction Ts as [|T r IH]; intros t; cbn [tank_closeouts fst snd]; [ring|].
  specialize (IH (t_end t T)). destruct (tank_closeouts c (t_end t T) r) as [t2 rep]. cbn [fst snd] in *.
  pose proof (proj1 (t_end_closeout t T c Hc)) as H1. lra.
Qed.

(* a decaying queue arc (DecayArc) at close-out *)
Lemma q_end_decay q c : conserved c -> q_dec q <> [] ->
  QueueLaws.qsumc c (q_queue (q_end q)) + cmp c (q_decayed (q_end q)) == QueueLaws.qsumc c (q_queue q).
Proof. intros Hc. destruct (QueueLaws.q_end_spec q c Hc) as (_ & _ & _ & _ & _ & _ & _ & H & _). exact H. Qed.
