(* NetLaws.v — the water ledger of a WHOLE network (coq/Net.v): for every
   topology (chains, confluences, divergences, cycles, self loops), every mix of
   junctions, stores, rivers, outlets and catchments, every capacity, preference,
   iteration limit and recursion depth, a request that returns moves exactly the
   water it reports:

     balance s n := (recorded inflow of n's in-arcs) - (recorded outflow of n's
                    out-arcs) - (water stored in n)

   is changed by a request only at the node the request is made AT, and there by
   exactly the volume the reply reports (ledger_exec); checks change nothing
   (checks_pure); hence every orchestration call (discharge of a store, river or
   groundwater store, abstraction into a reservoir, catchment routing) leaves the
   balance of EVERY interior node of the network unchanged (orch_balanced) - the
   per-node mass balance of C01 and the whole-system ledger of C03 for water, for
   the composition of components rather than for one component.

   The proof is by induction on the recursion depth of the open-recursive
   interpreter: exec_body preserves the ledger contract of whatever answers its
   nested requests. *)
From Coq Require Import QArith Qminmax Lqa Lia List Bool Arith.
From WSI Require Import Vqip Pow Tank TankLaws Arc QTank Distrib Kinds Net.
Import ListNotations.
Open Scope Q_scope.

(* ------------------------------------------------------------------ shape *)
Definition nshape (N : nnode) :=
  (nn_kind N, nn_ty N, nn_outs N, nn_ins N, (nn_res N, nn_len N, nn_vel N, nn_damp N, nn_mrf N), nn_flow N).
Definition ashape (A : narc) := (na_pref A, na_src A, na_dst A, a_cap (na_arc A)).
Definition shape (s : net) := (map nshape (n_nodes s), map ashape (n_arcs s)).

Lemma nth_error_nupd_same {A} (l : list A) i f : nth_error (nupd l i f) i = option_map f (nth_error l i).
Proof. revert i; induction l as [|x l IH]; intros [|i]; cbn; try reflexivity. apply IH. Qed.
Lemma nth_error_nupd_other {A} (l : list A) i j f : i <> j -> nth_error (nupd l i f) j = nth_error l j.
Proof. revert i j; induction l as [|x l IH]; intros [|i] [|j] H; cbn; try reflexivity; try congruence. apply IH; congruence. Qed.
Lemma map_nupd {A B} (g : A -> B) (l : list A) i f : (forall x, g (f x) = g x) -> map g (nupd l i f) = map g l.
Proof. intros H. revert i; induction l as [|x l IH]; intros [|i]; cbn; try reflexivity; [rewrite H | rewrite IH]; reflexivity. Qed.

Lemma shape_upd_node s n f : (forall N, nshape (f N) = nshape N) -> shape (upd_node s n f) = shape s.
Proof. intros H. unfold shape, upd_node; cbn [n_nodes n_arcs]. rewrite (map_nupd nshape) by exact H. reflexivity. Qed.
Lemma shape_upd_arc s a f : (forall A, ashape (f A) = ashape A) -> shape (upd_arc s a f) = shape s.
Proof. intros H. unfold shape, upd_arc; cbn [n_nodes n_arcs]. rewrite (map_nupd ashape) by exact H. reflexivity. Qed.
Lemma nshape_set_tank t N : nshape (set_tank t N) = nshape N. Proof. reflexivity. Qed.
Lemma nshape_set_unrouted u N : nshape (set_unrouted u N) = nshape N. Proof. reflexivity. Qed.
Lemma ashape_record A v : ashape (set_arc (a_record (na_arc A) v) A) = ashape A. Proof. reflexivity. Qed.

(* what the ledger needs of a network is in its shape *)
Definition node_sh (s : net) (n : nat) := nth_error (fst (shape s)) n.
Definition arc_sh (s : net) (a : nat) := nth_error (snd (shape s)) a.
Lemma node_sh_some s n N : nth_error (n_nodes s) n = Some N -> node_sh s n = Some (nshape N).
Proof. intros H. unfold node_sh, shape; cbn [fst]. apply map_nth_error, H. Qed.
Lemma arc_sh_some s a A : nth_error (n_arcs s) a = Some A -> arc_sh s a = Some (ashape A).
Proof. intros H. unfold arc_sh, shape; cbn [snd]. apply map_nth_error, H. Qed.
Lemma arc_sh_inv s a x : arc_sh s a = Some x -> exists A, nth_error (n_arcs s) a = Some A /\ ashape A = x.
Proof.
  unfold arc_sh, shape; cbn [snd]. intros H. rewrite nth_error_map in H.
  destruct (nth_error (n_arcs s) a) as [A|]; [|discriminate]. exists A; split; [reflexivity | injection H as H; exact H].
Qed.
Lemma node_sh_inv s n x : node_sh s n = Some x -> exists N, nth_error (n_nodes s) n = Some N /\ nshape N = x.
Proof.
  unfold node_sh, shape; cbn [fst]. intros H. rewrite nth_error_map in H.
  destruct (nth_error (n_nodes s) n) as [N|]; [|discriminate]. exists N; split; [reflexivity | injection H as H; exact H].
Qed.

Definition src_is (s : net) (a n : nat) : Prop := exists x, arc_sh s a = Some x /\ snd (fst (fst x)) = n.
Definition dst_is (s : net) (a n : nat) : Prop := exists x, arc_sh s a = Some x /\ snd (fst x) = n.
Definition wf (s : net) : Prop :=
  forall n x, node_sh s n = Some x ->
    (forall a, In a (snd (fst (fst (fst x)))) -> src_is s a n) /\
    (forall a, In a (snd (fst (fst x))) -> dst_is s a n).
Definition interior (s : net) (n : nat) : Prop :=
  exists x, node_sh s n = Some x /\
    let k := fst (fst (fst (fst (fst x)))) in k = NJunction \/ k = NStore \/ k = NRiver.

Lemma wf_shape s s' : shape s' = shape s -> wf s -> wf s'.
Proof. intros E H. unfold wf, node_sh, src_is, dst_is, arc_sh in *. rewrite E. exact H. Qed.
Lemma interior_shape s s' n : shape s' = shape s -> interior s n -> interior s' n.
Proof. intros E H. unfold interior, node_sh in *. rewrite E. exact H. Qed.
Lemma src_shape s s' a n : shape s' = shape s -> src_is s a n -> src_is s' a n.
Proof. intros E H. unfold src_is, arc_sh in *. rewrite E. exact H. Qed.
Lemma dst_shape s s' a n : shape s' = shape s -> dst_is s a n -> dst_is s' a n.
Proof. intros E H. unfold dst_is, arc_sh in *. rewrite E. exact H. Qed.

(* ----------------------------------------------------------------- ledger *)
Definition aflow (A : narc) : Q := vol (a_vin (na_arc A)).
Fixpoint asum (f : narc -> Q) (l : list narc) : Q := match l with [] => 0 | A :: r => f A + asum f r end.
Definition inflow (s : net) (n : nat) : Q := asum (fun A => if Nat.eqb (na_dst A) n then aflow A else 0) (n_arcs s).
Definition outflow (s : net) (n : nat) : Q := asum (fun A => if Nat.eqb (na_src A) n then aflow A else 0) (n_arcs s).
Definition stored (s : net) (n : nat) : Q :=
  match nth_error (n_nodes s) n with Some N => vol (t_sto (nn_tank N)) | None => 0 end.
Definition balance (s : net) (n : nat) : Q := inflow s n - outflow s n - stored s n.

Lemma asum_nupd f l i g : asum f (nupd l i g) ==
  asum f l + match nth_error l i with Some A => f (g A) - f A | None => 0 end.
Proof.
  revert i; induction l as [|x l IH]; intros [|i]; cbn [nupd asum nth_error]; try ring.
  rewrite IH. ring.
Qed.

Lemma stored_upd_node s n f m : stored (upd_node s n f) m ==
  if Nat.eqb n m then match nth_error (n_nodes s) n with Some N => vol (t_sto (nn_tank (f N))) | None => 0 end else stored s m.
Proof.
  unfold stored, upd_node; cbn [n_nodes]. destruct (Nat.eqb_spec n m) as [->|H].
  - rewrite nth_error_nupd_same. destruct (nth_error (n_nodes s) m); reflexivity.
  - rewrite nth_error_nupd_other by exact H. reflexivity.
Qed.
Lemma inflow_upd_node s n f m : inflow (upd_node s n f) m = inflow s m. Proof. reflexivity. Qed.
Lemma outflow_upd_node s n f m : outflow (upd_node s n f) m = outflow s m. Proof. reflexivity. Qed.
Lemma stored_upd_arc s a f m : stored (upd_arc s a f) m = stored s m. Proof. reflexivity. Qed.

Lemma vol_record A v : aflow (set_arc (a_record (na_arc A) v) A) == aflow A + vol v.
Proof. unfold aflow, set_arc, a_record; cbn [na_arc a_vin]. apply vol_sum. Qed.

(* recording v on arc a: the destination's inflow and the source's outflow grow by vol v *)
Lemma balance_record s a A v n : nth_error (n_arcs s) a = Some A ->
  balance (upd_arc s a (fun A' => set_arc (a_record (na_arc A') v) A')) n ==
  balance s n + (if Nat.eqb (na_dst A) n then vol v else 0) - (if Nat.eqb (na_src A) n then vol v else 0).
Proof.
  intros HA. unfold balance. rewrite stored_upd_arc.
  unfold inflow, outflow, upd_arc; cbn [n_arcs]. rewrite !asum_nupd, HA.
  cbn [set_arc na_dst na_src]. pose proof (vol_record A v) as HV.
  destruct (Nat.eqb (na_dst A) n), (Nat.eqb (na_src A) n); lra.
Qed.

Lemma balance_set_tank s n N t m : nth_error (n_nodes s) n = Some N ->
  balance (upd_node s n (set_tank t)) m ==
  balance s m - (if Nat.eqb n m then vol (t_sto t) - vol (t_sto (nn_tank N)) else 0).
Proof.
  intros HN. unfold balance. rewrite inflow_upd_node, outflow_upd_node, stored_upd_node, HN.
  cbn [set_tank nn_tank]. destruct (Nat.eqb_spec n m) as [->|H]; [|lra].
  unfold stored; rewrite HN. lra.
Qed.

(* ------------------------------------------- volumes of the store operations *)
Lemma t_push_volume t v f :
  vol (t_sto (fst (t_push t v f))) + vol (snd (t_push t v f)) == vol (t_sto t) + vol v.
Proof.
  unfold t_push. destruct f; cbn [fst snd t_with t_sto].
  - rewrite vol_sum. unfold vzero; cbn [vol]. lra.
  - rewrite vol_sum, !vol_change. lra.
Qed.
Lemma t_pull_volume t q :
  vol (t_sto (fst (t_pull t q))) + vol (snd (t_pull t q)) == vol (t_sto t).
Proof.
  unfold t_pull. destruct (Qeq_bool (vol (t_sto t)) 0); cbn [fst snd t_with t_sto].
  - unfold vzero; cbn [vol]. lra.
  - rewrite vol_sub. lra.
Qed.

(* --------------------------------------------------------------- contract *)
Definition is_check (r : req) : bool :=
  match r with RPushCheck _ _ | RPullCheck _ _ | RSendPushCheck _ _ | RSendPullCheck _ _ => true | _ => false end.
(* the node a request acts at, and the water its reply says that node gained *)
Definition at_node (s : net) (r : req) : option nat :=
  match r with
  | RPushSet m _ | RPullSet m _ => Some m
  | RSendPush a _ => option_map na_src (nth_error (n_arcs s) a)
  | RSendPull a _ => option_map na_dst (nth_error (n_arcs s) a)
  | _ => None
  end.
Definition gain (r : req) (rep : vqip) : Q :=
  match r with
  | RPushSet _ v | RSendPush _ v => - (vol v - vol rep)
  | RPullSet _ _ | RSendPull _ _ => vol rep
  | _ => 0
  end.
Definition effect (s : net) (r : req) (rep : vqip) (n : nat) : Q :=
  match at_node s r with Some m => if Nat.eqb m n then gain r rep else 0 | None => 0 end.
Definition contract (s : net) (r : req) (s' : net) (rep : vqip) : Prop :=
  wf s -> shape s' = shape s /\ (is_check r = true -> s' = s) /\
          forall n, interior s n -> balance s' n == balance s n + effect s r rep n.

Lemma src_is_arc s a m : src_is s a m -> exists A, nth_error (n_arcs s) a = Some A /\ na_src A = m.
Proof. intros (x & Hx & Hm). apply arc_sh_inv in Hx as (A & HA & <-). exists A; split; [exact HA | exact Hm]. Qed.
Lemma dst_is_arc s a m : dst_is s a m -> exists A, nth_error (n_arcs s) a = Some A /\ na_dst A = m.
Proof. intros (x & Hx & Hm). apply arc_sh_inv in Hx as (A & HA & <-). exists A; split; [exact HA | exact Hm]. Qed.
Lemma effect_send_push s a m v rep n : src_is s a m ->
  effect s (RSendPush a v) rep n = if Nat.eqb m n then - (vol v - vol rep) else 0.
Proof. intros H. apply src_is_arc in H as (A & HA & <-). unfold effect, at_node. rewrite HA. reflexivity. Qed.
Lemma effect_send_pull s a m q rep n : dst_is s a m ->
  effect s (RSendPull a q) rep n = if Nat.eqb m n then vol rep else 0.
Proof. intros H. apply dst_is_arc in H as (A & HA & <-). unfold effect, at_node. rewrite HA. reflexivity. Qed.

Lemma shape_arc s s' a A : shape s' = shape s -> nth_error (n_arcs s) a = Some A ->
  exists A', nth_error (n_arcs s') a = Some A' /\ ashape A' = ashape A.
Proof.
  intros E HA. pose proof (arc_sh_some s a A HA) as H. unfold arc_sh in H. rewrite <- E in H.
  apply (arc_sh_inv s' a) in H. exact H.
Qed.
Lemma shape_node s s' n N : shape s' = shape s -> nth_error (n_nodes s) n = Some N ->
  exists N', nth_error (n_nodes s') n = Some N' /\ nshape N' = nshape N.
Proof.
  intros E HN. pose proof (node_sh_some s n N HN) as H. unfold node_sh in H. rewrite <- E in H.
  apply (node_sh_inv s' n) in H. exact H.
Qed.
Lemma wf_outs s n N a : wf s -> nth_error (n_nodes s) n = Some N -> In a (nn_outs N) -> src_is s a n.
Proof. intros W HN Hin. apply (proj1 (W n _ (node_sh_some s n N HN))). exact Hin. Qed.
Lemma wf_ins s n N a : wf s -> nth_error (n_nodes s) n = Some N -> In a (nn_ins N) -> dst_is s a n.
Proof. intros W HN Hin. apply (proj2 (W n _ (node_sh_some s n N HN))). exact Hin. Qed.

Lemma direction_arcs_incl s push ot arcs a : In a (direction_arcs s push ot arcs) -> In a arcs.
Proof.
  unfold direction_arcs. destruct ot as [tys|]; [|exact (fun H => H)].
  intros H. apply in_flat_map in H as (ty & _ & H). apply filter_In in H. exact (proj1 H).
Qed.

Section Body.
Variable rec : net -> req -> res.
Variable maxiter : nat.
Hypothesis Hrec : forall s r s' rep, rec s r = Some (s', rep) -> contract s r s' rep.

Lemma nconnected_arcs s push : forall arcs c, nconnected rec s push arcs = Some c -> map (fun x => fst (fst x)) c = arcs.
Proof.
  induction arcs as [|a r IH]; intros c H; cbn [nconnected] in H.
  - injection H as <-. reflexivity.
  - unfold bind in H. destruct (ncheck_vol rec s push a) as [av0|]; [|discriminate].
    destruct (nconnected rec s push r) as [rest|]; [|discriminate]. injection H as <-.
    cbn [map fst]. f_equal. apply IH. reflexivity.
Qed.
Lemma nconnected_in s push arcs c x : nconnected rec s push arcs = Some c -> In x c -> In (fst (fst x)) arcs.
Proof. intros H Hin. rewrite <- (nconnected_arcs s push arcs c H). apply (in_map (fun x => fst (fst x))), Hin. Qed.

(* ---- push_distributed ---- *)
Lemma push_round_ledger m : forall c s capmode amount prio np s' np',
  wf s -> (forall x, In x c -> src_is s (fst (fst x)) m) ->
  npush_round rec s c capmode amount prio np = Some (s', np') ->
  shape s' = shape s /\
  forall n, interior s n -> balance s' n == balance s n - (if Nat.eqb m n then vol np - vol np' else 0).
Proof.
  induction c as [|[[a av] al] c IH]; intros s capmode amount prio np s' np' W Hsrc H; cbn [npush_round] in H.
  - injection H as <- <-. split; [reflexivity|]. intros n _. destruct (Nat.eqb m n); lra.
  - unfold bind in H.
    set (to_send := vchange np (amount * (if capmode then av else al) / prio)) in H.
    destruct (rec s (RSendPush a to_send)) as [[s1 reply]|] eqn:E1; [|discriminate].
    destruct (Hrec _ _ _ _ E1 W) as (Sh1 & _ & B1).
    assert (Hm : src_is s a m) by (apply (Hsrc (a, av, al)); left; reflexivity).
    destruct (IH s1 capmode amount prio _ s' np' (wf_shape _ _ Sh1 W)
                (fun x Hx => src_shape _ _ _ _ Sh1 (Hsrc x (or_intror Hx))) H) as (Sh2 & B2).
    split; [rewrite Sh2; exact Sh1|]. intros n Hn.
    rewrite (B2 n (interior_shape _ _ _ Sh1 Hn)), (B1 n Hn), (effect_send_push s a m _ _ _ Hm).
    destruct (Nat.eqb m n); rewrite ?vol_sub; lra.
Qed.

Lemma push_loop_ledger m ot arcs : forall fuel s np c capmode s' np',
  wf s -> (forall a, In a arcs -> src_is s a m) -> (forall x, In x c -> In (fst (fst x)) arcs) ->
  npush_loop rec fuel m ot arcs s np c capmode = Some (s', np') ->
  shape s' = shape s /\
  forall n, interior s n -> balance s' n == balance s n - (if Nat.eqb m n then vol np - vol np' else 0).
Proof.
  induction fuel as [|f IH]; intros s np c capmode s' np' W Harcs Hc H; cbn [npush_loop] in H.
  - injection H as <- <-. split; [reflexivity|]. intros n _. destruct (Nat.eqb m n); lra.
  - destruct (Qltb eps (vol np) && Qltb eps (c_av c)).
    2:{ injection H as <- <-. split; [reflexivity|]. intros n _. destruct (Nat.eqb m n); lra. }
    destruct (Qeq_bool (if capmode then c_av c else c_pr c) 0); [discriminate|].
    unfold bind in H.
    destruct (npush_round rec s c capmode (Qmin (c_av c) (vol np)) (if capmode then c_av c else c_pr c) np)
      as [[s1 np1]|] eqn:E1; [|discriminate].
    destruct (push_round_ledger m c s _ _ _ np s1 np1 W (fun x Hx => Harcs _ (Hc x Hx)) E1) as (Sh1 & B1).
    destruct (nconnected rec s1 true (direction_arcs s1 true ot arcs)) as [c'|] eqn:E2; [|discriminate].
    destruct (IH s1 np1 c' false s' np' (wf_shape _ _ Sh1 W)
                (fun a Ha => src_shape _ _ _ _ Sh1 (Harcs a Ha))
                (fun x Hx => direction_arcs_incl _ _ _ _ _ (nconnected_in _ _ _ _ _ E2 Hx)) H) as (Sh2 & B2).
    split; [rewrite Sh2; exact Sh1|]. intros n Hn.
    rewrite (B2 n (interior_shape _ _ _ Sh1 Hn)), (B1 n Hn). destruct (Nat.eqb m n); lra.
Qed.

Lemma push_distributed_ledger s m ot v s' rep : wf s ->
  npush_distributed rec maxiter s m ot v = Some (s', rep) ->
  shape s' = shape s /\
  forall n, interior s n -> balance s' n == balance s n - (if Nat.eqb m n then vol v - vol rep else 0).
Proof.
  intros W H. unfold npush_distributed in H.
  destruct (nth_error (n_nodes s) m) as [N|] eqn:HN; [|discriminate].
  assert (Hout : forall a, In a (nn_outs N) -> src_is s a m) by (intros a Ha; exact (wf_outs s m N a W HN Ha)).
  assert (Hmulti : forall arcs, arcs = nn_outs N ->
            bind (nconnected rec s true (direction_arcs s true ot arcs))
                 (fun c => npush_loop rec maxiter m ot arcs s v c (Qltb (c_av c) (vol v))) = Some (s', rep) ->
            shape s' = shape s /\
            forall n, interior s n -> balance s' n == balance s n - (if Nat.eqb m n then vol v - vol rep else 0)).
  { intros arcs -> H'. unfold bind in H'.
    destruct (nconnected rec s true (direction_arcs s true ot (nn_outs N))) as [c|] eqn:E2; [|discriminate].
    apply (push_loop_ledger m ot (nn_outs N) maxiter s v c _ s' rep W Hout
             (fun x Hx => direction_arcs_incl _ _ _ _ _ (nconnected_in _ _ _ _ _ E2 Hx)) H'). }
  destruct (nn_outs N) as [|a [|b r]] eqn:EO.
  - apply (Hmulti [] eq_refl H).
  - destruct (match ot with None => true | Some tys => existsb (Nat.eqb (far_ty s true a)) tys end).
    + destruct (Hrec _ _ _ _ H W) as (Sh & _ & B). split; [exact Sh|]. intros n Hn.
      rewrite (B n Hn), (effect_send_push s a m _ _ _ (Hout a (or_introl eq_refl))). destruct (Nat.eqb m n); lra.
    + injection H as <- <-. split; [reflexivity|]. intros n _. destruct (Nat.eqb m n); lra.
  - apply (Hmulti (a :: b :: r) eq_refl H).
Qed.

(* ---- pull_distributed ---- *)
Lemma pull_round_ledger m : forall c s deficit prio pulled s' got,
  wf s -> (forall x, In x c -> dst_is s (fst (fst x)) m) ->
  npull_round rec s c deficit prio pulled = Some (s', got) ->
  shape s' = shape s /\
  forall n, interior s n -> balance s' n == balance s n + (if Nat.eqb m n then vol got - vol pulled else 0).
Proof.
  induction c as [|[[a av] al] c IH]; intros s deficit prio pulled s' got W Hdst H; cbn [npull_round] in H.
  - injection H as <- <-. split; [reflexivity|]. intros n _. destruct (Nat.eqb m n); lra.
  - unfold bind in H.
    destruct (rec s (RSendPull a (Qred (deficit * al / prio)))) as [[s1 g]|] eqn:E1; [|discriminate].
    destruct (Hrec _ _ _ _ E1 W) as (Sh1 & _ & B1).
    assert (Hm : dst_is s a m) by (apply (Hdst (a, av, al)); left; reflexivity).
    destruct (IH s1 deficit prio _ s' got (wf_shape _ _ Sh1 W)
                (fun x Hx => dst_shape _ _ _ _ Sh1 (Hdst x (or_intror Hx))) H) as (Sh2 & B2).
    split; [rewrite Sh2; exact Sh1|]. intros n Hn.
    rewrite (B2 n (interior_shape _ _ _ Sh1 Hn)), (B1 n Hn), (effect_send_pull s a m _ _ _ Hm).
    destruct (Nat.eqb m n); rewrite ?vol_sum; lra.
Qed.

Lemma pull_loop_ledger m ot arcs : forall fuel s want pulled deficit c s' got,
  wf s -> (forall a, In a arcs -> dst_is s a m) -> (forall x, In x c -> In (fst (fst x)) arcs) ->
  npull_loop rec fuel ot arcs s want pulled deficit c = Some (s', got) ->
  shape s' = shape s /\
  forall n, interior s n -> balance s' n == balance s n + (if Nat.eqb m n then vol got - vol pulled else 0).
Proof.
  induction fuel as [|f IH]; intros s want pulled deficit c s' got W Harcs Hc H; cbn [npull_loop] in H.
  - injection H as <- <-. split; [reflexivity|]. intros n _. destruct (Nat.eqb m n); lra.
  - destruct (Qltb eps deficit && Qltb eps (c_av c)).
    2:{ injection H as <- <-. split; [reflexivity|]. intros n _. destruct (Nat.eqb m n); lra. }
    destruct (Qeq_bool (c_pr c) 0); [discriminate|].
    unfold bind in H.
    destruct (npull_round rec s c deficit (c_pr c) pulled) as [[s1 p1]|] eqn:E1; [|discriminate].
    destruct (pull_round_ledger m c s _ _ pulled s1 p1 W (fun x Hx => Harcs _ (Hc x Hx)) E1) as (Sh1 & B1).
    destruct (nconnected rec s1 false (direction_arcs s1 false ot arcs)) as [c'|] eqn:E2; [|discriminate].
    destruct (IH s1 want p1 _ c' s' got (wf_shape _ _ Sh1 W)
                (fun a Ha => dst_shape _ _ _ _ Sh1 (Harcs a Ha))
                (fun x Hx => direction_arcs_incl _ _ _ _ _ (nconnected_in _ _ _ _ _ E2 Hx)) H) as (Sh2 & B2).
    split; [rewrite Sh2; exact Sh1|]. intros n Hn.
    rewrite (B2 n (interior_shape _ _ _ Sh1 Hn)), (B1 n Hn). destruct (Nat.eqb m n); lra.
Qed.

Lemma pull_distributed_ledger s m ot want s' got : wf s ->
  npull_distributed rec maxiter s m ot want = Some (s', got) ->
  shape s' = shape s /\
  forall n, interior s n -> balance s' n == balance s n + (if Nat.eqb m n then vol got else 0).
Proof.
  intros W H. unfold npull_distributed in H.
  destruct (nth_error (n_nodes s) m) as [N|] eqn:HN; [|discriminate].
  assert (Hin : forall a, In a (nn_ins N) -> dst_is s a m) by (intros a Ha; exact (wf_ins s m N a W HN Ha)).
  assert (Hmulti : forall arcs, arcs = nn_ins N ->
            bind (nconnected rec s false (direction_arcs s false ot arcs))
                 (fun c => npull_loop rec maxiter ot arcs s want vzero want c) = Some (s', got) ->
            shape s' = shape s /\
            forall n, interior s n -> balance s' n == balance s n + (if Nat.eqb m n then vol got else 0)).
  { intros arcs -> H'. unfold bind in H'.
    destruct (nconnected rec s false (direction_arcs s false ot (nn_ins N))) as [c|] eqn:E2; [|discriminate].
    destruct (pull_loop_ledger m ot (nn_ins N) maxiter s want vzero want c s' got W Hin
             (fun x Hx => direction_arcs_incl _ _ _ _ _ (nconnected_in _ _ _ _ _ E2 Hx)) H') as (Sh & B).
    split; [exact Sh|]. intros n Hn. rewrite (B n Hn). unfold vzero; cbn [vol]. destruct (Nat.eqb m n); lra. }
  destruct (nn_ins N) as [|a [|b r]] eqn:EO.
  - apply (Hmulti [] eq_refl H).
  - destruct (match ot with None => true | Some tys => existsb (Nat.eqb (far_ty s false a)) tys end).
    + destruct (Hrec _ _ _ _ H W) as (Sh & _ & B). split; [exact Sh|]. intros n Hn.
      rewrite (B n Hn), (effect_send_pull s a m _ _ _ (Hin a (or_introl eq_refl))). reflexivity.
    + injection H as <- <-. split; [reflexivity|]. intros n _. unfold vzero; cbn [vol]. destruct (Nat.eqb m n); lra.
  - apply (Hmulti (a :: b :: r) eq_refl H).
Qed.
End Body.

(* ----------------------------------------- one level of the protocol keeps the contract *)
Section Step.
Variable rec : net -> req -> res.
Variable maxiter : nat.
Hypothesis Hrec : forall s r s' rep, rec s r = Some (s', rep) -> contract s r s' rep.

Lemma bal_refl s n : balance s n == balance s n + 0. Proof. lra. Qed.

Lemma check_contract s r rep : is_check r = true -> contract s r s rep.
Proof.
  intros Hc W. split; [reflexivity|]. split; [reflexivity|]. intros n _.
  unfold effect. destruct r; try discriminate; cbn [at_node]; lra.
Qed.

Theorem body_contract s r s' rep : exec_body rec maxiter s r = Some (s', rep) -> contract s r s' rep.
Proof.
  intros H. destruct r as [m v | m ov | m q | m ov | a v | a q | a ov | a ov]; cbn [exec_body] in H.
  - (* RPushSet *)
    destruct (nth_error (n_nodes s) m) as [N|] eqn:HN; [|discriminate].
    intros W. destruct (nn_kind N) eqn:K.
    + destruct (push_distributed_ledger rec maxiter Hrec s m _ v s' rep W H) as (Sh & B).
      split; [exact Sh|]. split; [discriminate|]. intros n Hn. rewrite (B n Hn).
      unfold effect; cbn [at_node gain]. destruct (Nat.eqb m n); lra.
    + injection H as <- <-. split; [reflexivity|]. split; [discriminate|]. intros n Hn.
      unfold effect; cbn [at_node gain]. destruct (Nat.eqb_spec m n) as [->|]; [|lra].
      exfalso. destruct Hn as (x & Hx & Hk). rewrite (node_sh_some s n N HN) in Hx. injection Hx as <-.
      cbn in Hk. rewrite K in Hk. destruct Hk as [Hk|[Hk|Hk]]; discriminate.
    + destruct (t_push (nn_tank N) v false) as [t' r'] eqn:ET. injection H as <- <-.
      split; [apply shape_upd_node, nshape_set_tank|]. split; [discriminate|]. intros n Hn.
      rewrite (balance_set_tank s m N t' n HN). unfold effect; cbn [at_node gain].
      pose proof (t_push_volume (nn_tank N) v false) as HV. rewrite ET in HV; cbn [fst snd] in HV.
      destruct (Nat.eqb m n); lra.
    + destruct (t_push (nn_tank N) v true) as [t' r'] eqn:ET. injection H as <- <-.
      split; [apply shape_upd_node, nshape_set_tank|]. split; [discriminate|]. intros n Hn.
      rewrite (balance_set_tank s m N t' n HN). unfold effect; cbn [at_node gain].
      pose proof (t_push_volume (nn_tank N) v true) as HV. rewrite ET in HV; cbn [fst snd] in HV.
      assert (Hr : vol r' == 0) by (unfold t_push in ET; injection ET as _ <-; reflexivity).
      unfold vzero; cbn [vol]. destruct (Nat.eqb m n); lra.
    + injection H as <- <-. split; [reflexivity|]. split; [discriminate|]. intros n Hn.
      unfold effect; cbn [at_node gain]. destruct (Nat.eqb m n); lra.
  - (* RPushCheck *)
    destruct (nth_error (n_nodes s) m) as [N|]; [|discriminate].
    assert (s' = s) as ->.
    { destruct (nn_kind N); unfold bind in H;
        try (destruct (ncheck_basic rec s true (Some JUNCTION_TYPES) (nn_outs N) (option_map vol ov)); [|discriminate]);
        injection H as <- _; reflexivity. }
    apply check_contract; reflexivity.
  - (* RPullSet *)
    destruct (nth_error (n_nodes s) m) as [N|] eqn:HN; [|discriminate].
    intros W. destruct (nn_kind N) eqn:K.
    + destruct (pull_distributed_ledger rec maxiter Hrec s m _ q s' rep W H) as (Sh & B).
      split; [exact Sh|]. split; [discriminate|]. intros n Hn. rewrite (B n Hn). reflexivity.
    + injection H as <- <-. split; [reflexivity|]. split; [discriminate|]. intros n Hn.
      unfold effect; cbn [at_node gain]. unfold vzero; cbn [vol]. destruct (Nat.eqb m n); lra.
    + destruct (t_pull (nn_tank N) q) as [t' r'] eqn:ET. injection H as <- <-.
      split; [apply shape_upd_node, nshape_set_tank|]. split; [discriminate|]. intros n Hn.
      rewrite (balance_set_tank s m N t' n HN). unfold effect; cbn [at_node gain].
      pose proof (t_pull_volume (nn_tank N) q) as HV. rewrite ET in HV; cbn [fst snd] in HV.
      destruct (Nat.eqb m n); lra.
    + unfold bind in H. destruct (rec s (RPullCheck m (Some q))) as [[sx avail]|] eqn:EC; [|discriminate].
      destruct (t_pull (nn_tank N) (vol avail)) as [t1 pulled] eqn:ET.
      destruct (npull_distributed rec maxiter (upd_node s m (set_tank t1)) m (Some [T_RIVER; T_NODE])
                  (Qred (vol avail - vol pulled))) as [[s2 pulled_]|] eqn:EP; [|discriminate].
      injection H as <- <-.
      assert (Sh1 : shape (upd_node s m (set_tank t1)) = shape s) by (apply shape_upd_node, nshape_set_tank).
      destruct (pull_distributed_ledger rec maxiter Hrec _ m _ _ s2 pulled_ (wf_shape _ _ Sh1 W) EP) as (Sh2 & B2).
      split; [rewrite Sh2; exact Sh1|]. split; [discriminate|]. intros n Hn.
      rewrite (B2 n (interior_shape _ _ _ Sh1 Hn)), (balance_set_tank s m N t1 n HN).
      unfold effect; cbn [at_node gain].
      pose proof (t_pull_volume (nn_tank N) (vol avail)) as HV. rewrite ET in HV; cbn [fst snd] in HV.
      destruct (Nat.eqb m n); rewrite ?vol_sum; lra.
    + injection H as <- <-. split; [reflexivity|]. split; [discriminate|]. intros n Hn.
      unfold effect; cbn [at_node gain]. destruct (Nat.eqb_spec m n) as [->|]; [|lra].
      exfalso. destruct Hn as (x & Hx & Hk). rewrite (node_sh_some s n N HN) in Hx. injection Hx as <-.
      cbn in Hk. rewrite K in Hk. destruct Hk as [Hk|[Hk|Hk]]; discriminate.
  - (* RPullCheck *)
    destruct (nth_error (n_nodes s) m) as [N|]; [|discriminate].
    assert (s' = s) as ->.
    { destruct (nn_kind N); unfold bind in H;
        try (destruct (ncheck_basic rec s false None (nn_ins N) ov); [|discriminate]);
        try (destruct (nconnected rec s false (direction_arcs s false (Some [T_RIVER; T_NODE]) (nn_ins N))); [|discriminate]);
        injection H as <- _; reflexivity. }
    apply check_contract; reflexivity.
  - (* RSendPush *)
    destruct (nth_error (n_arcs s) a) as [A|] eqn:HA; [|discriminate].
    unfold bind in H. destruct (rec s (RSendPushCheck a (Some v))) as [[sx ex]|]; [|discriminate].
    set (np := vchange v (Qmax (vol v - vol ex) 0)) in H.
    destruct (rec s (RPushSet (na_dst A) (vsub v np))) as [[s1 reply]|] eqn:E1; [|discriminate].
    injection H as <- <-. intros W.
    destruct (Hrec _ _ _ _ E1 W) as (Sh1 & _ & B1).
    destruct (shape_arc s s1 a A Sh1 HA) as (A1 & HA1 & EA1).
    split; [rewrite shape_upd_arc by (intros; apply ashape_record); exact Sh1|]. split; [discriminate|].
    intros n Hn. rewrite (balance_record s1 a A1 _ n HA1), (B1 n Hn).
    assert (Es : na_src A1 = na_src A) by (unfold ashape in EA1; congruence).
    assert (Ed : na_dst A1 = na_dst A) by (unfold ashape in EA1; congruence).
    rewrite Es, Ed. unfold effect; cbn [at_node gain]. rewrite HA; cbn [option_map].
    destruct (Nat.eqb (na_dst A) n), (Nat.eqb (na_src A) n); rewrite ?vol_sub, ?vol_sum; lra.
  - (* RSendPull *)
    destruct (nth_error (n_arcs s) a) as [A|] eqn:HA; [|discriminate].
    unfold bind in H. destruct (rec s (RSendPullCheck a (Some q))) as [[sx ex]|]; [|discriminate].
    destruct (rec s (RPullSet (na_src A) (Qred (q - Qmax (q - vol ex) 0)))) as [[s1 got]|] eqn:E1; [|discriminate].
    injection H as <- <-. intros W.
    destruct (Hrec _ _ _ _ E1 W) as (Sh1 & _ & B1).
    destruct (shape_arc s s1 a A Sh1 HA) as (A1 & HA1 & EA1).
    split; [rewrite shape_upd_arc by (intros; apply ashape_record); exact Sh1|]. split; [discriminate|].
    intros n Hn. rewrite (balance_record s1 a A1 _ n HA1), (B1 n Hn).
    assert (Es : na_src A1 = na_src A) by (unfold ashape in EA1; congruence).
    assert (Ed : na_dst A1 = na_dst A) by (unfold ashape in EA1; congruence).
    rewrite Es, Ed. unfold effect; cbn [at_node gain]. rewrite HA; cbn [option_map].
    destruct (Nat.eqb (na_dst A) n), (Nat.eqb (na_src A) n); lra.
  - (* RSendPushCheck *)
    destruct (nth_error (n_arcs s) a) as [A|]; [|discriminate].
    unfold bind in H. destruct (rec s (RPushCheck (na_dst A) ov)) as [[sx ne]|]; [|discriminate].
    injection H as <- _. apply check_contract; reflexivity.
  - (* RSendPullCheck *)
    destruct (nth_error (n_arcs s) a) as [A|]; [|discriminate].
    unfold bind in H. destruct (rec s (RPullCheck (na_src A) ov)) as [[sx ne]|]; [|discriminate].
    injection H as <- _. apply check_contract; reflexivity.
Qed.
End Step.

(* ------------------------------------------------ every depth of the recursion *)
Theorem ledger_exec maxiter : forall fuel s r s' rep,
  exec maxiter fuel s r = Some (s', rep) -> contract s r s' rep.
Proof.
  induction fuel as [|f IH]; intros s r s' rep H; [discriminate|].
  cbn [exec] in H. exact (body_contract (exec maxiter f) maxiter IH s r s' rep H).
Qed.

Corollary checks_pure maxiter fuel s r s' rep : wf s -> is_check r = true ->
  exec maxiter fuel s r = Some (s', rep) -> s' = s.
Proof. intros W C H. exact (proj1 (proj2 (ledger_exec maxiter fuel s r s' rep H W)) C). Qed.

Lemma balance_same_tank s n f m : (forall N, nn_tank (f N) = nn_tank N) -> balance (upd_node s n f) m == balance s m.
Proof.
  intros Hf. unfold balance. rewrite inflow_upd_node, outflow_upd_node, stored_upd_node.
  destruct (Nat.eqb_spec n m) as [->|]; [|lra]. unfold stored.
  destruct (nth_error (n_nodes s) m); [rewrite Hf|]; lra.
Qed.

Lemma discharge_balanced maxiter fuel s n ot amount s' : wf s ->
  ndischarge maxiter fuel s n ot amount = Some s' ->
  shape s' = shape s /\ forall k, interior s k -> balance s' k == balance s k.
Proof.
  intros W H. unfold ndischarge in H.
  destruct (nth_error (n_nodes s) n) as [N|] eqn:HN; [|discriminate].
  destruct (t_pull (nn_tank N) amount) as [t1 out] eqn:ET. unfold bind in H.
  set (s1 := upd_node s n (set_tank t1)) in H.
  assert (Sh1 : shape s1 = shape s) by (apply shape_upd_node, nshape_set_tank).
  destruct (npush_distributed (exec maxiter fuel) maxiter s1 n ot out) as [[s2 retained]|] eqn:EP; [|discriminate].
  destruct (push_distributed_ledger (exec maxiter fuel) maxiter (ledger_exec maxiter fuel) s1 n ot out s2 retained
              (wf_shape _ _ Sh1 W) EP) as (Sh2 & B2).
  destruct (nth_error (n_nodes s2) n) as [N2|] eqn:HN2; [|discriminate].
  destruct (t_push (nn_tank N2) retained true) as [t2 r2] eqn:ET2. injection H as <-.
  split; [rewrite shape_upd_node by (intros; apply nshape_set_tank); rewrite Sh2; exact Sh1|].
  intros k Hk. rewrite (balance_set_tank s2 n N2 t2 k HN2), (B2 k (interior_shape _ _ _ Sh1 Hk)).
  unfold s1. rewrite (balance_set_tank s n N t1 k HN).
  pose proof (t_pull_volume (nn_tank N) amount) as HV. rewrite ET in HV; cbn [fst snd] in HV.
  pose proof (t_push_volume (nn_tank N2) retained true) as HV2. rewrite ET2 in HV2; cbn [fst snd] in HV2.
  assert (Hr : vol r2 == 0) by (unfold t_push in ET2; injection ET2 as _ <-; reflexivity).
  destruct (Nat.eqb n k); lra.
Qed.

(* every orchestration call leaves the water balance of every interior node of the network as it
   was (catchment routing is a boundary inflow: it is exempt at the node it is called on) *)
Theorem orch_balanced maxiter fuel s o s' : wf s -> orch maxiter fuel s o = Some s' ->
  shape s' = shape s /\
  forall k, interior s k -> (match o with ORoute m => k <> m | _ => True end) -> balance s' k == balance s k.
Proof.
  intros W H. destruct o as [n | n | n | n]; cbn [orch] in H.
  - destruct (nth_error (n_nodes s) n) as [N|]; [|discriminate].
    destruct (nn_kind N); destruct (discharge_balanced _ _ _ _ _ _ _ W H) as (Sh & B); (split; [exact Sh | intros k Hk _; exact (B k Hk)]).
  - destruct (nth_error (n_nodes s) n) as [N|] eqn:HN; [|discriminate]. unfold bind in H.
    match type of H with context [npush_distributed _ _ _ _ ?ot ?av] =>
      destruct (npush_distributed (exec maxiter fuel) maxiter s n ot av) as [[s1 reply]|] eqn:EP; [|discriminate];
      destruct (push_distributed_ledger (exec maxiter fuel) maxiter (ledger_exec maxiter fuel) s n ot av s1 reply W EP) as (Sh1 & B1)
    end.
    injection H as <-. split; [rewrite shape_upd_node by (intros; apply nshape_set_unrouted); exact Sh1|].
    intros k Hk Hne. rewrite balance_same_tank by reflexivity. rewrite (B1 k Hk).
    destruct (Nat.eqb_spec n k) as [->|]; [contradiction | lra].
  - destruct (nth_error (n_nodes s) n) as [N|] eqn:HN; [|discriminate]. unfold bind in H.
    destruct (npull_distributed (exec maxiter fuel) maxiter s n None (vol (t_get_excess (nn_tank N) None))) as [[s1 got]|] eqn:EP; [|discriminate].
    destruct (pull_distributed_ledger (exec maxiter fuel) maxiter (ledger_exec maxiter fuel) s n None _ s1 got W EP) as (Sh1 & B1).
    destruct (nth_error (n_nodes s1) n) as [N1|] eqn:HN1; [|discriminate].
    destruct (t_push (nn_tank N1) got false) as [t1 spill] eqn:ET1.
    destruct (t_push t1 spill true) as [t2 r2] eqn:ET2. injection H as <-.
    split; [rewrite shape_upd_node by (intros; apply nshape_set_tank); exact Sh1|].
    intros k Hk _. rewrite (balance_set_tank s1 n N1 t2 k HN1), (B1 k Hk).
    pose proof (t_push_volume (nn_tank N1) got false) as HV1. rewrite ET1 in HV1; cbn [fst snd] in HV1.
    pose proof (t_push_volume t1 spill true) as HV2. rewrite ET2 in HV2; cbn [fst snd] in HV2.
    assert (Hr : vol r2 == 0) by (unfold t_push in ET2; injection ET2 as _ <-; reflexivity).
    destruct (Nat.eqb n k); lra.
  - destruct (nth_error (n_nodes s) n) as [N|]; [|discriminate].
    destruct (discharge_balanced _ _ _ _ _ _ _ W H) as (Sh & B). split; [exact Sh | intros k Hk _; exact (B k Hk)].
Qed.

(* ... for every sequence of orchestration calls (a timestep, a run) *)
Fixpoint orch_all (maxiter fuel : nat) (s : net) (os : list ocall) : option net :=
  match os with [] => Some s | o :: r => bind (orch maxiter fuel s o) (fun s1 => orch_all maxiter fuel s1 r) end.
Theorem run_balanced maxiter fuel : forall os s s', wf s -> orch_all maxiter fuel s os = Some s' ->
  shape s' = shape s /\
  forall k, interior s k -> (forall m, In (ORoute m) os -> k <> m) -> balance s' k == balance s k.
Proof.
  induction os as [|o os IH]; intros s s' W H; cbn [orch_all] in H.
  - injection H as <-. split; [reflexivity | intros; reflexivity].
  - unfold bind in H. destruct (orch maxiter fuel s o) as [s1|] eqn:E1; [|discriminate].
    destruct (orch_balanced maxiter fuel s o s1 W E1) as (Sh1 & B1).
    destruct (IH s1 s' (wf_shape _ _ Sh1 W) H) as (Sh2 & B2).
    split; [rewrite Sh2; exact Sh1|]. intros k Hk Hr.
    rewrite (B2 k (interior_shape _ _ _ Sh1 Hk) (fun m Hm => Hr m (or_intror Hm))).
    apply (B1 k Hk). destruct o; try exact I. apply Hr. left; reflexivity.
Qed.

(* the whole-system ledger: the summed balance of any set of interior nodes is kept *)
Fixpoint qsum (l : list Q) : Q := match l with [] => 0 | x :: r => x + qsum r end.
Corollary system_ledger maxiter fuel os s s' ks : wf s -> orch_all maxiter fuel s os = Some s' ->
  (forall k, In k ks -> interior s k /\ forall m, In (ORoute m) os -> k <> m) ->
  qsum (map (balance s') ks) == qsum (map (balance s) ks).
Proof.
  intros W H Hk. destruct (run_balanced maxiter fuel os s s' W H) as (_ & B).
  induction ks as [|k ks IH]; cbn [map qsum]; [reflexivity|].
  rewrite (B k (proj1 (Hk k (or_introl eq_refl))) (proj2 (Hk k (or_introl eq_refl)))).
  rewrite IH by (intros k' Hk'; apply Hk; right; exact Hk'). reflexivity.
Qed.

(* ---------------------------------------------------- a decidable well-formedness check *)
Lemma nth_error_combine_seq {A} (l : list A) : forall k n x, nth_error l n = Some x -> In ((k + n)%nat, x) (combine (seq k (length l)) l).
Proof.
  induction l as [|y l IH]; intros k [|n] x H; cbn in *; try discriminate.
  - injection H as <-. left. rewrite Nat.add_0_r. reflexivity.
  - right. replace (k + S n)%nat with (S k + n)%nat by lia. apply IH, H.
Qed.
Lemma net_wfb_sound s : net_wfb s = true -> wf s.
Proof.
  intros H n x Hx. unfold net_wfb in H. rewrite forallb_forall in H.
  apply node_sh_inv in Hx as (N & HN & <-).
  pose proof (H _ (nth_error_combine_seq (n_nodes s) 0 n N HN)) as Hn. cbn [fst snd Nat.add] in Hn.
  apply andb_true_iff in Hn as [Ho Hi]. rewrite forallb_forall in Ho, Hi. split; intros a Ha; cbn in Ha.
  - pose proof (Ho a Ha) as Hy. destruct (nth_error (n_arcs s) a) as [A|] eqn:E; [|discriminate].
    exists (ashape A); split; [exact (arc_sh_some s a A E) | exact (proj1 (Nat.eqb_eq _ _) Hy)].
  - pose proof (Hi a Ha) as Hy. destruct (nth_error (n_arcs s) a) as [A|] eqn:E; [|discriminate].
    exists (ashape A); split; [exact (arc_sh_some s a A E) | exact (proj1 (Nat.eqb_eq _ _) Hy)].
Qed.

(* non-vacuity: a network with a cycle (store 0 -> junction 1 -> river 2 -> outlet 3, and junction 1 -> store 0):
   it is well-formed, discharging the store returns, and the theorem applies *)
Definition ex_net : net :=
  let nd k ty t outs ins := mkNN k ty t outs ins 1 100 400 (1#10) 0 vzero vzero in
  mkNet [nd NStore T_STORAGE (t_init 10 (mkV 6 [3] []) [] 2) [0%nat] [3%nat];
         nd NJunction T_NODE (t_init 0 vzero [] 2) [1%nat; 3%nat] [0%nat];
         nd NRiver T_RIVER (t_init unbounded (mkV 1 [0] []) [] 2) [2%nat] [1%nat];
         nd NWaste T_WASTE (t_init 0 vzero [] 2) [] [2%nat]]
        [mkNA (a_init 5) 1 0 1; mkNA (a_init unbounded) 1 1 2; mkNA (a_init unbounded) 1 2 3; mkNA (a_init 2) 1 1 0].
Example ex_net_wf : wf ex_net.
Proof. apply net_wfb_sound. vm_compute. reflexivity. Qed.
Example ex_net_runs : exists s', orch_all 5 20 ex_net [ODistribute 0; ODistribute 2] = Some s' /\ ~ balance s' 0 == 0.
Proof. eexists. split; [vm_compute; reflexivity|]. vm_compute. discriminate. Qed.
