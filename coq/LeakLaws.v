(* LeakLaws.v — a Distribution with leakage (Leak.v): what a pull hands to the consumer.  The node draws at most
   request / (1 - leakage) from its suppliers; the consumer receives the drawn amount less the leaked share - that is at
   most the request - PLUS whatever groundwater did not take of the leaked share, when that is more than FLOAT_ACCURACY.
   So "a pull returns at most what was asked" holds exactly when the leak is placed, and fails otherwise
   (Refuted.v, C07/C18 finding distribution-leakage-bounced-to-consumer). *)
From Coq Require Import QArith Qminmax Lqa List Bool Arith.
From WSI Require Import Vqip Pow Tank Arc Distrib Kinds Leak TankLaws ArcLaws QueueLaws DistribLaws.
Import ListNotations.
Open Scope Q_scope.

Section LeakLaws.
Variable S : Type.
Variable P : port S.
Variable K : contract S P.
Variable maxiter : nat.

Theorem dn_pull_books (n n' : dnode S) q r : star_ok S P K (dn_ins S n) -> 0 <= q -> 0 <= dn_leak S n < 1 ->
  dn_pull_set S P maxiter n q = Some (n', r) ->
  exists got unplaced,
    0 <= vol got <= q / (1 - dn_leak S n) /\
    vol r == vol got * (1 - dn_leak S n) + (if Qltb eps (vol unplaced) then vol unplaced else 0) /\
    (dn_leak S n == 0 -> vol r <= q).
Proof.
  intros Hok Hq [Hl0 Hl1] Hrun. unfold dn_pull_set in Hrun.
  destruct (Qle_bool (dn_leak S n) 0) eqn:El.
  - apply Qle_bool_iff in El. assert (Hz : dn_leak S n == 0) by lra.
    destruct (pull_distributed S P maxiter None (dn_ins S n) q) as [[[ins' got] m]|] eqn:Ep; [|discriminate].
    inversion Hrun; subst. destruct (pull_distributed_spec S P K maxiter None _ q _ _ _ Hok Hq Ep) as (_ & Hn & Hv & _).
    pose proof (Hn SVol I) as H0; cbn [cmp] in H0.
    exists r, vzero. unfold vzero at 1; cbn [vol].
    assert (E : Qltb eps 0 = false) by reflexivity. rewrite E.
    split; [split; [exact H0 | rewrite Hz; field_simplify (q / (1 - 0)); lra]|]. split; [rewrite Hz; ring | intros _; exact Hv].
  - assert (Hpos : 0 < dn_leak S n).
    { destruct (Qlt_le_dec 0 (dn_leak S n)) as [H|H]; [exact H|]. apply Qle_bool_iff in H. congruence. }
    assert (Hw : 0 <= q / (1 - dn_leak S n)) by (apply Qle_shift_div_l; lra).
    destruct (pull_distributed S P maxiter None (dn_ins S n) (q / (1 - dn_leak S n))) as [[[ins' got] m]|] eqn:Ep; [|discriminate].
    destruct (pull_distributed_spec S P K maxiter None _ _ _ _ _ Hok Hw Ep) as (_ & Hn & Hv & _).
    pose proof (Hn SVol I) as H0; cbn [cmp] in H0.
    destruct (push_distributed S P maxiter (Some [T_GROUNDWATER]) (dn_outs S n) (vchange got (vol got * dn_leak S n))) as [[[outs' unplaced] m2]|]; [|discriminate].
    inversion Hrun; subst. exists got, unplaced.
    split; [split; assumption|]. split.
    + destruct (Qltb eps (vol unplaced)); rewrite ?vol_sum, vol_sub, vol_change; ring.
    + intros Hz. lra.
Qed.

(* the consumer never gets more than was asked when the leaked share is placed (or too small to matter) *)
Corollary dn_pull_within_request_when_placed (n n' : dnode S) q r : star_ok S P K (dn_ins S n) -> 0 <= q -> 0 <= dn_leak S n < 1 ->
  dn_pull_set S P maxiter n q = Some (n', r) ->
  vol r <= q \/ exists unplaced, eps < vol unplaced /\ q < vol r <= q + vol unplaced.
Proof.
  intros Hok Hq Hl Hrun. destruct (dn_pull_books n n' q r Hok Hq Hl Hrun) as (got & unplaced & [Hg0 Hg] & Hr & _).
  assert (Hb : vol got * (1 - dn_leak S n) <= q).
  { assert (E : q / (1 - dn_leak S n) * (1 - dn_leak S n) == q) by (field; lra).
    rewrite <- E. apply Qmult_le_compat_r; lra. }
  destruct (Qltb eps (vol unplaced)) eqn:E.
  - destruct (Qlt_le_dec q (vol r)) as [Hlt|Hle]; [|left; exact Hle].
    right. exists unplaced. apply Qltb_true in E. split; [exact E|]. split; [exact Hlt | lra].
  - left. lra.
Qed.

End LeakLaws.
