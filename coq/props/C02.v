(* Property C02 — every arc conserves what it carries, incl. in-transit and
   decayed amounts.  Statements only; proofs in ArcLaws.v, QueueLaws.v,
   QTankLaws.v.  `bal c q` = in - out - in transit - decayed (component c).
   The queue-arc theorems hold for ANY behaviour of the end nodes. *)
From Coq Require Import QArith Qminmax List Bool Arith.
From WSI Require Import Vqip Pow Tank Arc QTank Run TankLaws ArcLaws QTankLaws QueueLaws Refuted.
From WSI Require DecayQTank.
Import ListNotations.
Open Scope Q_scope.

(* plain / pull-only / push-only arcs hold nothing: the outflow record IS the inflow
   record after every admissible operation sequence *)
Theorem C02_plain_arc_out_is_in : forall S P (K : contract S P) k ops a s,
  Forall op_ok ops -> okS S P K s -> arc_ok a ->
  arc_ok (fst (arc_run S P k (a, s) ops)) /\ okS S P K (snd (arc_run S P k (a, s) ops)) /\
  a_cap (fst (arc_run S P k (a, s) ops)) = a_cap a.
Proof. exact arc_run_inv. Qed.
Print Assumptions C02_plain_arc_out_is_in.

(* queue arcs: a push changes in - out - transit - decayed only by the requests
   that update_queue drops for having a volume below FLOAT_ACCURACY ... *)
Theorem C02_queue_push_ledger : forall S P q s v force time c, conserved c ->
  let q' := fst (fst (q_send_push S P q s v force time)) in
  bal c q' == bal c q + qsumc c (push_dropped S P q s v force time).
Proof. exact q_push_ledger. Qed.
Print Assumptions C02_queue_push_ledger.
(* ... each of which is smaller than FLOAT_ACCURACY in volume *)
Theorem C02_dropped_requests_are_below_float_accuracy : forall push rs,
  Forall (fun r => vol (r_v r) < eps) (filter (is_dust push) rs).
Proof. exact dust_is_small. Qed.
Print Assumptions C02_dropped_requests_are_below_float_accuracy.

Theorem C02_queue_pull_ledger : forall S P q s v time c, conserved c ->
  let q' := fst (fst (q_send_pull S P q s v time)) in
  let r := snd (q_send_pull S P q s v time) in
  bal c q' == bal c q + qsumc c (pull_dropped S P q s v time) /\
  cmp c (a_vout (q_a q')) == cmp c (a_vout (q_a q)) + cmp c r.
Proof. exact q_pull_ledger. Qed.
Print Assumptions C02_queue_pull_ledger.

(* close-out: the new timestep starts with in = out = 0 and what is in transit
   (after the close-out decay) plus that decay equals what was in transit before *)
Theorem C02_queue_closeout_ledger : forall q c, conserved c ->
  (q_dec q = [] -> cmp c (q_decayed q) == 0) ->
  bal c (q_end q) == - qsumc c (q_queue q).
Proof. exact q_end_ledger. Qed.
Print Assumptions C02_queue_closeout_ledger.

(* water rejected at the far end is handed back to the sender and taken out of the
   inflow record: kept once, dropped never *)
Theorem C02_backflow_is_returned_to_the_sender : forall S P q s v time, Qltb (vol v) eps = false ->
  let np := vchange v (Qmax (vol v - vol (a_excess_push S P (q_a q) s (Some v))) 0) in
  let q1 := q_enter q (time + q_n q) (vsub v np) true in
  let back := snd (q_update S P q1 s true) in
  snd (q_send_push S P q s v false time) = vsum np back /\
  a_vin (q_a (fst (fst (q_send_push S P q s v false time)))) = vsub (a_vin (q_a q1)) back.
Proof. exact q_push_backflow_returned. Qed.
Print Assumptions C02_backflow_is_returned_to_the_sender.

(* the alternative queue arc (inside queue tanks): contents = arrived + all buckets, always *)
Theorem C02_alt_queue_nothing_lost : forall m t T, qt_ok t ->
  qt_ok (ends m t T) /\
  (forall c, conserved c -> cmp c (act (ends m t T)) == cmp c (act t) + psum (fun i => cmp c (bucket t (S i))) m) /\
  (forall c k, conserved c -> cmp c (bucket (ends m t T) (S k)) == cmp c (bucket t (S k + m))) /\
  (forall c, conserved c -> cmp c (sto (ends m t T)) == cmp c (sto t)).
Proof. exact qt_ends_spec. Qed.
Print Assumptions C02_alt_queue_nothing_lost.

(* a push below FLOAT_ACCURACY is handed back whole: nothing recorded, nothing lost *)
Example C02_tiny_push_handed_back :
  let q := q_init (10#1) 1 [] in let s := (w_idle, w_rejecting) in
  q_send_push _ nbport q s w_tiny false 0 = (q, s, w_tiny).
Proof. exact tiny_push_is_handed_back. Qed.
Print Assumptions C02_tiny_push_handed_back.

(* ---- every queue tank, decaying or not (QueueTank, DecayQueueTank: Sewer and QueueGroundwater stores) ----
   in every state reachable by pushes (any travel time, forced or not, wet offers), pulls, exact pulls,
   checks and close-outs: declared contents = arrived + in transit + decay applied and not yet reported *)
Theorem C02_every_queue_tank_declares_what_it_holds : forall ops t, Forall WSI.DecayQTank.qop_wet ops ->
  WSI.DecayQTank.qledger t /\ WSI.DecayQTank.plain_quiet t ->
  forall k, let t' := fold_left (fun s o => fst (QTank.qtank_do s o)) (firstn k ops) t in
            WSI.DecayQTank.qledger t' /\ WSI.DecayQTank.plain_quiet t'.
Proof. exact WSI.DecayQTank.qtank_run_ledger. Qed.
Print Assumptions C02_every_queue_tank_declares_what_it_holds.

Theorem C02_queue_tank_initial_state_meets_it : forall cap0 init n dec,
  WSI.DecayQTank.qledger (QTank.qt_init cap0 init n dec) /\ WSI.DecayQTank.plain_quiet (QTank.qt_init cap0 init n dec).
Proof. exact WSI.DecayQTank.qt_init_ledger. Qed.
Print Assumptions C02_queue_tank_initial_state_meets_it.
