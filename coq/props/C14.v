(* Property C14 — persistence.  Statements only (proofs in ParamLaws.v, Orch.v).
   save/load: for every component kind of Params.v, in EVERY state reachable by construction
   followed by any sequence of overrides, constructing from the arguments that Model.save writes
   gives the component back (all parameters and derived quantities), and a second save writes
   what the first one wrote.  The pervious surface is the non-trivial case: its depth attribute is
   the physical depth times the porosity, and save must divide it out (C14_save_attr_refuted is
   the tree before the repair).  pickle/resume: a run interrupted at any timestep boundary and
   continued from the state reached is the uninterrupted run, for any step function whose whole
   simulation state is its State argument.
   What the model cannot exhibit (partial): the yaml / csv / csv.gz text layer, dill, the
   attribute-by-name reflection of Model.save over classes not in Params.v, date classes; these are
   reached by the save/load and pickle monitors on the implementation (harness/mon_c14.py). *)
From Coq Require Import QArith List.
From WSI Require Import Params ParamLaws Orch.
Import ListNotations.
Open Scope Q_scope.

Theorem C14_surface_save_load : forall a os,
  let s := fold_left surf_ov os (surf_mk a) in surf_mk (surf_save s) = s.
Proof. exact surf_save_load. Qed.
Print Assumptions C14_surface_save_load.

Theorem C14_impervious_save_load : forall a os,
  let s := fold_left imp_ov os (imp_mk a) in imp_mk (imp_save s) = s.
Proof. exact imp_save_load. Qed.
Print Assumptions C14_impervious_save_load.

Theorem C14_pervious_save_load : forall a os s, tps_nonzero (ap_tp a) os ->
  perv_run (perv_mk a) os = Some s -> exists a', perv_save s = Some a' /\ perv_mk a' = s.
Proof. exact perv_save_load. Qed.
Print Assumptions C14_pervious_save_load.

Theorem C14_pervious_second_generation : forall a a1, ~ ap_tp a == 0 ->
  perv_save (perv_mk a) = Some a1 -> perv_save (perv_mk a1) = Some a1.
Proof. exact perv_second_generation. Qed.
Print Assumptions C14_pervious_second_generation.

Theorem C14_save_attr_refuted : exists a, ~ ap_tp a == 0 /\ perv_mk (perv_save_attr (perv_mk a)) <> perv_mk a.
Proof. exact perv_save_attr_refuted. Qed.
Print Assumptions C14_save_attr_refuted.

Theorem C14_storage_save_load : forall a os,
  let s := fold_left store_ov os (store_mk a) in store_mk (store_save s) = s.
Proof. exact store_save_load. Qed.
Print Assumptions C14_storage_save_load.

Theorem C14_river_save_load : forall U a os,
  let s := fold_left (river_ov U) os (river_mk U a) in river_mk U (river_save s) = s.
Proof. exact river_save_load. Qed.
Print Assumptions C14_river_save_load.

Theorem C14_wtw_save_load : forall a os,
  let s := fold_left wtw_ov os (wtw_mk a) in wtw_mk (wtw_save s) = s.
Proof. exact wtw_save_load. Qed.
Print Assumptions C14_wtw_save_load.

Theorem C14_arc_save_load : forall t, arc_mk (arc_save t) = t.
Proof. exact arc_save_load. Qed.
Print Assumptions C14_arc_save_load.

Theorem C14_resumed_run_is_the_run : forall (State Date Out : Type) (step : State -> Date -> State * Out) s ds k,
  run State Date Out step s ds =
  let '(s1, o1) := run State Date Out step s (firstn k ds) in
  let '(s2, o2) := run State Date Out step s1 (skipn k ds) in (s2, o1 ++ o2).
Proof. exact run_resumed. Qed.
Print Assumptions C14_resumed_run_is_the_run.

(* non-vacuity: a concrete pervious surface, overridden twice, meets the hypotheses *)
Example C14_pervious_reachable :
  let a := mkAP 10 (3#4) (2#5) (3#10) (1#10) (1#5) (1#2) [Some (1#100)] in
  let os := [mkOP None (Some (1#2)) (Some (1#2)) None None None None None []; mkOP (Some 20) None None (Some (1#4)) None None None None [None; Some 3]] in
  tps_nonzero (ap_tp a) os /\ exists s, perv_run (perv_mk a) os = Some s.
Proof. cbv zeta. split; [cbn; repeat split; discriminate | eexists; vm_compute; reflexivity]. Qed.
