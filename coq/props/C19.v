(* Property C19 — environmental safeguards.  Statements only (proofs in
   KindLaws.v), about the River / RiverReservoir models of Kinds.v that the
   correspondence check runs against wsimod/nodes/storage.py.
   allowance = mrf / riverrc; river_water = own store + what the river sees upstream. *)
From Coq Require Import QArith Qminmax List Bool Arith.
From WSI Require Import Vqip Pow Tank Arc QTank Distrib Kinds Run TankLaws ArcLaws QueueLaws DistribLaws KindLaws.
Import ListNotations.
Open Scope Q_scope.

(* any abstraction, in any state (so: however many came before, in whatever order, through whatever arcs):
   takes at most what is above the allowance, at most what was asked, nothing when at or below it *)
Theorem C19_abstraction_respects_minimum_flow : forall S P (K : contract S P) maxiter k q k' r,
  kind_ok S P K k -> 0 <= q -> rv_pull_set S P maxiter k q = Some (k', r) ->
  vol r <= Qmax (river_water S P k - allowance S k) 0 /\ vol r <= q /\ 0 <= vol r /\
  (river_water S P k <= allowance S k -> vol r == 0) /\
  (forall c, conserved c -> cmp c (stock S k') + sumvin S c (k_ins S k') + 0 ==
                            cmp c (stock S k) + sumvin S c (k_ins S k) + 0 - cmp c r + 2 * (sumvin S c (k_ins S k') - sumvin S c (k_ins S k))) /\
  k_outs S k' = k_outs S k.
Proof. exact river_abstraction_bounded. Qed.
Print Assumptions C19_abstraction_respects_minimum_flow.

(* with the water in the river's own store: what is left stays at or above the allowance *)
Theorem C19_allowance_is_kept : forall S P (K : contract S P) maxiter k q k' r,
  kind_ok S P K k -> 0 <= q -> 0 <= allowance S k -> k_ins S k = [] ->
  rv_pull_set S P maxiter k q = Some (k', r) ->
  vol r == Qmin q (vol (rv_pull_check S P k None)) /\
  vol (stock S k') == vol (stock S k) - vol r /\
  (allowance S k <= vol (stock S k) -> allowance S k <= vol (stock S k')).
Proof. exact river_alone_honest_and_safe. Qed.
Print Assumptions C19_allowance_is_kept.

(* reservoir release: min(outstanding, contents) leaves the store, never more than the outstanding amount,
   all of it when the reservoir holds that much; what the downstream side refuses comes back and is not counted *)
Theorem C19_environmental_release : forall S P (K : contract S P) maxiter,
  (forall s v, okS S P K s -> wet v -> forall k, vol (snd (p_push_set P s v)) <= 0 -> get (adds (snd (p_push_set P s v))) k == 0) ->
  forall k k', kind_ok S P K k -> rr_satisfy_environmental S P maxiter k = Some k' ->
  let outstanding := Qmax (k_env S k - k_envsat S k) 0 in
  exists released back,
    released == Qmin outstanding (vol (stock S k)) /\ 0 <= back <= released /\
    k_envsat S k' == k_envsat S k + (released - back) /\
    vol (stock S k') == vol (stock S k) - (released - back) /\
    sumvin S SVol (k_outs S k') == sumvin S SVol (k_outs S k) + (released - back).
Proof. exact reservoir_release. Qed.
Print Assumptions C19_environmental_release.
