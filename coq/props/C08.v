(* Property C08 — routing discipline.  Statements only.
   - handler tables (finite, regenerated from the live classes on every run): every tagged request a
     component can emit towards a neighbour type has a set- and a check-handler in every class seen
     under that type name;
   - a pull-only arc never carries a push and hands the offer back intact, a push-only arc never
     carries a pull; checks change nothing;
   - a node distributing to / drawing from neighbours of named types leaves the arcs to every other
     neighbour untouched (frame / pframe), for any fan-out and any contract-respecting far ends. *)
From Coq Require Import QArith String List Bool Arith.
From WSI Require Import Vqip Pow Tank Arc QTank Distrib Run TankLaws ArcLaws QueueLaws DistribLaws Routing.
From WSI.gen Require Import GenHandlers.
Import ListNotations.
Open Scope Q_scope.

Theorem C08_every_emitted_tag_has_its_handlers : forallb emission_ok emissions = true.
Proof. exact handlers_total. Qed.
Print Assumptions C08_every_emitted_tag_has_its_handlers.

Theorem C08_pull_only_arc_never_carries_a_push : forall S P a s v f t,
  arc_do S P KPullArc a s (APush v f t) = (a, s, v) /\
  forall ov, arc_do S P KPullArc a s (APushCheck ov) = (a, s, vzero).
Proof. exact pullarc_never_pushes. Qed.
Print Assumptions C08_pull_only_arc_never_carries_a_push.
Theorem C08_push_only_arc_never_carries_a_pull : forall S P a s q t,
  arc_do S P KPushArc a s (APull q t) = (a, s, vzero) /\
  forall ov, arc_do S P KPushArc a s (APullCheck ov) = (a, s, vzero).
Proof. exact pusharc_never_pulls. Qed.
Print Assumptions C08_push_only_arc_never_carries_a_pull.
Theorem C08_checks_change_nothing : forall S P k a s o,
  (match o with APushCheck _ | APullCheck _ | ADs | ASetT _ => True | _ => False end) ->
  fst (arc_do S P k a s o) = (a, s).
Proof. exact arc_check_pure. Qed.
Print Assumptions C08_checks_change_nothing.

Definition wet_answers S (P : port S) (K : contract S P) : Prop :=
  forall s v, okS S P K s -> wet v ->
  forall k, vol (snd (p_push_set P s v)) <= 0 -> get (adds (snd (p_push_set P s v))) k == 0.
(* type filter: arcs whose neighbour type is not named come out of a distribution exactly as they went in *)
Theorem C08_push_touches_only_named_types : forall S P (K : contract S P), wet_answers S P K ->
  forall maxiter ot st v st' np msg, star_ok S P K st -> wet v ->
  push_distributed S P maxiter ot st v = Some (st', np, msg) ->
  star_ok S P K st' /\ length st' = length st /\
  (forall k, conserved k -> 0 <= cmp k np <= cmp k v) /\
  (forall k, conserved k -> sumvin S k st' == sumvin S k st + (cmp k v - cmp k np)) /\
  Forall2 (frame S ot) st st' /\
  (msg = false -> length st <> 1%nat ->
     vol np <= eps \/ exists c0, feasible_exhausted S P true ot c0 st st').
Proof. exact push_distributed_spec. Qed.
Print Assumptions C08_push_touches_only_named_types.
Theorem C08_pull_touches_only_named_types : forall S P (K : contract S P),
  forall maxiter ot st want st' got msg, star_ok S P K st -> 0 <= want ->
  pull_distributed S P maxiter ot st want = Some (st', got, msg) ->
  star_ok S P K st' /\ nonneg got /\ vol got <= want /\
  (forall k, conserved k -> sumvin S k st' == sumvin S k st + cmp k got) /\
  Forall2 (pframe S ot) st st' /\
  (msg = false -> length st <> 1%nat ->
     want - vol got <= eps \/ exists c0, feasible_exhausted S P false ot c0 st st').
Proof. exact pull_distributed_spec. Qed.
Print Assumptions C08_pull_touches_only_named_types.
