(* Property C12 — totality.  Statements only.  In the models every place where
   the source divides without a guard returns an explicit error (None / divok =
   false) where Python raises ZeroDivisionError, and the correspondence check
   demands that the implementation raises exactly there.  Proved here: the
   redistribution loop of push_distributed never reaches its unguarded division
   when all preferences are strictly positive; stores and arcs have no error
   case at all (their models are total functions with guarded divisions).
   Whole-model totality (all node classes, zero forcing, empty/full stores) is
   checked on the implementation by the boundary-stream monitor (partial). *)
From Coq Require Import QArith Qminmax List Bool Arith.
From WSI Require Import Vqip Pow Tank Arc QTank Distrib Run TankLaws ArcLaws QueueLaws DistribLaws.
From WSI Require DivBaseline DivSites.
From WSI.gen Require GenDivs.
Import ListNotations.
Open Scope Q_scope.

Theorem C12_distribution_never_divides_by_zero : forall S P maxiter ot st v,
  prefs_pos S st -> push_distributed S P maxiter ot st v <> None.
Proof. exact push_distributed_total. Qed.
Print Assumptions C12_distribution_never_divides_by_zero.

(* the one store operation that divides (v_change inside pull) is guarded by the emptiness test:
   pulling from an empty store returns nothing and leaves it unchanged *)
Theorem C12_pull_from_empty_store : forall t v c, conserved c -> nonneg (t_sto t) -> 0 <= v ->
  0 <= cmp c (snd (t_pull t v)) <= cmp c (t_sto t) /\
  cmp c (t_sto (fst (t_pull t v))) == cmp c (t_sto t) - cmp c (snd (t_pull t v)) /\
  vol (snd (t_pull t v)) <= v.
Proof. exact t_pull_spec. Qed.
Print Assumptions C12_pull_from_empty_store.

(* ---- every division of the library (table regenerated from the source on every run, T5) ----
   is one of the reviewed sites: same function, same divisor, same guarding conditions.  A division that
   appears, changes its divisor or loses a guard breaks this obligation; the boundary-stream monitors
   then look for the input on which it raises. *)
Theorem C12_every_division_site_is_a_reviewed_one : forall r,
  In r WSI.gen.GenDivs.div_sites -> In r WSI.DivBaseline.reviewed_sites.
Proof. exact WSI.DivSites.division_sites_reviewed_forall. Qed.
Print Assumptions C12_every_division_site_is_a_reviewed_one.
