(* Property C13 — determinism and chunking.  Statements only (proofs in Orch.v).
   Determinism of the model is functionality (Gallina functions); the two
   non-trivial statements: a run over a date list split in two is the run over
   the first part followed by the run over the second part from the state
   reached, results concatenated - for ANY step function whose whole simulation
   state is its State argument; and the river order is a function of the arc
   and node insertion order alone (no set iteration order enters the model; the
   correspondence check compares it with the implementation, and fresh
   interpreters with different PYTHONHASHSEED are compared by the monitor).
   What a model cannot exhibit - interpreter hash randomisation, state left in
   class attributes, module registries, shared default arguments - is reached
   only through the implementation monitor (partial). *)
From Coq Require Import List Arith Bool.
From WSI Require Import Orch.
Import ListNotations.

Theorem C13_run_in_pieces_is_one_run : forall (State Date Out : Type) (step : State -> Date -> State * Out) s d1 d2,
  run State Date Out step s (d1 ++ d2) =
  let '(s1, o1) := run State Date Out step s d1 in
  let '(s2, o2) := run State Date Out step s1 d2 in (s2, o1 ++ o2).
Proof. exact run_app. Qed.
Print Assumptions C13_run_in_pieces_is_one_run.

Theorem C13_river_order_is_well_defined : forall arcs outlets is_river, NoDup outlets ->
  NoDup (river_order arcs outlets is_river) /\
  forall n, In n (keys (fst (assign_upstream arcs outlets))) -> is_river n = true ->
            In n (river_order arcs outlets is_river).
Proof. exact every_levelled_once. Qed.
Print Assumptions C13_river_order_is_well_defined.
