(* Property C01 — every node conserves water and additive pollutants in every
   timestep.  Statements only.  Proved here, per building block of a node:
   junctions (what a node forwards over its out-arcs adds up to what it accepted;
   what it gathers over its in-arcs adds up to what it hands on), stores (what
   enters plus what is returned is what was offered; what leaves is what is
   reported), plain arcs (out-record = in-record).  The composition over whole
   models and the node classes that are not modelled in Coq are checked on the
   implementation by the exact-arithmetic balance monitor (partial). *)
From Coq Require Import QArith Qminmax List Bool Arith.
From WSI Require Import Vqip Pow Tank Arc QTank Distrib Run TankLaws ArcLaws QTankLaws QueueLaws DistribLaws.
From WSI Require Net NetLaws.
From WSI Require Kinds TimeArea Boundary Demand DemandLaws Wtw WtwLaws WtwWet LandV LandLaws LandRouting.
Import ListNotations.
Open Scope Q_scope.

Definition wet_answers S (P : port S) (K : contract S P) : Prop :=
  forall s v, okS S P K s -> wet v ->
  forall k, vol (snd (p_push_set P s v)) <= 0 -> get (adds (snd (p_push_set P s v))) k == 0.

(* a junction forwarding a push: sum of the out-arc records = offer - returned remainder *)
Theorem C01_junction_push_conserves : forall S P (K : contract S P), wet_answers S P K ->
  forall maxiter ot st v st' np msg, star_ok S P K st -> wet v ->
  push_distributed S P maxiter ot st v = Some (st', np, msg) ->
  star_ok S P K st' /\ length st' = length st /\
  (forall k, conserved k -> 0 <= cmp k np <= cmp k v) /\
  (forall k, conserved k -> sumvin S k st' == sumvin S k st + (cmp k v - cmp k np)) /\
  Forall2 (frame S ot) st st' /\
  (msg = false -> length st <> 1%nat ->
     vol np <= eps \/ exists c0, feasible_exhausted S P true ot c0 st st').
Proof. exact push_distributed_spec. Qed.
Print Assumptions C01_junction_push_conserves.
(* a junction serving a pull: sum of the in-arc records = what it hands on *)
Theorem C01_junction_pull_conserves : forall S P (K : contract S P),
  forall maxiter ot st want st' got msg, star_ok S P K st -> 0 <= want ->
  pull_distributed S P maxiter ot st want = Some (st', got, msg) ->
  star_ok S P K st' /\ nonneg got /\ vol got <= want /\
  (forall k, conserved k -> sumvin S k st' == sumvin S k st + cmp k got) /\
  Forall2 (pframe S ot) st st' /\
  (msg = false -> length st <> 1%nat ->
     want - vol got <= eps \/ exists c0, feasible_exhausted S P false ot c0 st st').
Proof. exact pull_distributed_spec. Qed.
Print Assumptions C01_junction_pull_conserves.
Theorem C01_store_push_conserves : forall t v c, conserved c -> wet v ->
  cmp c (t_sto (fst (t_push t v false))) + cmp c (snd (t_push t v false)) == cmp c (t_sto t) + cmp c v.
Proof. exact t_push_conserves. Qed.
Print Assumptions C01_store_push_conserves.
Theorem C01_store_pull_conserves : forall t v c, conserved c -> nonneg (t_sto t) -> 0 <= v ->
  0 <= cmp c (snd (t_pull t v)) <= cmp c (t_sto t) /\
  cmp c (t_sto (fst (t_pull t v))) == cmp c (t_sto t) - cmp c (snd (t_pull t v)) /\
  vol (snd (t_pull t v)) <= v.
Proof. exact t_pull_spec. Qed.
Print Assumptions C01_store_pull_conserves.
Theorem C01_plain_arc_record_is_transfer : forall S P (K : contract S P) a s v,
  okS S P K s -> wet v -> arc_ok a ->
  let a' := fst (fst (a_send_push S P a s v false)) in
  let s' := snd (fst (a_send_push S P a s v false)) in
  let r := snd (a_send_push S P a s v false) in
  okS S P K s' /\ arc_ok a' /\
  (forall c, conserved c -> 0 <= cmp c r <= cmp c v) /\
  (forall c, conserved c -> cmp c (a_vin a') == cmp c (a_vin a) + (cmp c v - cmp c r)) /\
  (forall c, conserved c -> cmp c (sto_out S P K s') == cmp c (sto_out S P K s) + (cmp c v - cmp c r)) /\
  (forall c, conserved c -> cmp c (sto_in S P K s') == cmp c (sto_in S P K s)) /\
  a_fin a' == a_fin a + (vol v - vol r) /\ a_cap a' = a_cap a.
Proof. exact a_push_spec. Qed.
Print Assumptions C01_plain_arc_record_is_transfer.

(* ---- the composition: whole networks (coq/Net.v, NetLaws.v), water ----
   For EVERY network of junctions, stores, rivers, outlets and catchments over plain arcs - any
   topology incl. confluences, divergences and cycles, any capacities, preferences, iteration limit
   and recursion depth - whose wiring is well-formed, every orchestration call that returns
   (discharge of a store / river / groundwater store, abstraction, catchment routing) leaves
     balance n = recorded inflow of n's in-arcs - recorded outflow of n's out-arcs - water stored in n
   of EVERY interior node n unchanged: what the stores of a node gained is what its arcs brought
   minus what its arcs took, for all nodes of the network at once; so for every sequence of calls. *)
Theorem C01_network_every_node_balances_after_every_call : forall maxiter fuel s o s',
  NetLaws.wf s -> Net.orch maxiter fuel s o = Some s' ->
  NetLaws.shape s' = NetLaws.shape s /\
  forall k, NetLaws.interior s k -> (match o with Net.ORoute m => k <> m | _ => True end) ->
            NetLaws.balance s' k == NetLaws.balance s k.
Proof. exact NetLaws.orch_balanced. Qed.
Print Assumptions C01_network_every_node_balances_after_every_call.

Theorem C01_network_every_node_balances_over_a_run : forall maxiter fuel os s s',
  NetLaws.wf s -> NetLaws.orch_all maxiter fuel s os = Some s' ->
  NetLaws.shape s' = NetLaws.shape s /\
  forall k, NetLaws.interior s k -> (forall m, In (Net.ORoute m) os -> k <> m) ->
            NetLaws.balance s' k == NetLaws.balance s k.
Proof. exact NetLaws.run_balanced. Qed.
Print Assumptions C01_network_every_node_balances_over_a_run.

(* the hypothesis is decidable and is evaluated on every network the correspondence builds *)
Theorem C01_network_wiring_check_is_sound : forall s, Net.net_wfb s = true -> NetLaws.wf s.
Proof. exact NetLaws.net_wfb_sound. Qed.
Print Assumptions C01_network_wiring_check_is_sound.

(* ---- a node class with boundary terms: Demand / ResidentialDemand (coq/Demand.v, tied by family demand) ----
   create_demand against any neighbours meeting the reply contract: the in-arcs record exactly what the node books as
   received (a declared out-term), the out-arcs record exactly what it books as generated (declared in-term) less what
   it books as backed up (declared out-term) - so (arc inflow + total_demand) - (arc outflow + total_backup +
   total_received) is unchanged by create_demand apart from replacing the received account, i.e. zero after it in a
   timestep that started with empty accounts; volume and every additive pollutant, any items and type filters. *)
Theorem C01_demand_node_keeps_its_declared_accounts : forall S (P : port S) (K : contract S P),
  (forall s v, okS S P K s -> wet v -> forall k, vol (snd (p_push_set P s v)) <= 0 -> get (adds (snd (p_push_set P s v))) k == 0) ->
  forall maxiter (n n' : Demand.dmnode S) its,
  star_ok S P K (Demand.dm_ins S n) -> star_ok S P K (Demand.dm_outs S n) -> (forall i, In i its -> wet (fst i)) ->
  Demand.dm_create S P maxiter n its = Some n' ->
  star_ok S P K (Demand.dm_ins S n') /\ star_ok S P K (Demand.dm_outs S n') /\
  forall c, conserved c ->
    sumvin S c (Demand.dm_ins S n') - sumvin S c (Demand.dm_ins S n) == cmp c (Demand.dm_received S n') /\
    sumvin S c (Demand.dm_outs S n') - sumvin S c (Demand.dm_outs S n) ==
      (cmp c (Demand.dm_demand S n') - cmp c (Demand.dm_demand S n)) - (cmp c (Demand.dm_backup S n') - cmp c (Demand.dm_backup S n)) /\
    cmp c (Demand.dm_demand S n') - cmp c (Demand.dm_demand S n) == DemandLaws.isum c its.
Proof. exact DemandLaws.dm_create_books. Qed.
Print Assumptions C01_demand_node_keeps_its_declared_accounts.

(* ---- treatment works (coq/Wtw.v, tied by family wtw) ----
   the treatment step turns its input into effluent, liquor and solids and nothing else, whatever the process
   parameters and the temperature; WWTW.calculate_discharge (clear the stormwater tank as far as throughput allows,
   re-treat the liquor carried over, treat) creates and loses nothing: volume and every additive pollutant *)
Theorem C01_treatment_step_conserves : forall p influent treated liquor c, conserved c ->
  let '(treated', liquor', solids) := Wtw.w_treat p influent treated liquor in
  (cmp c treated' - cmp c treated) + cmp c liquor' + cmp c solids == cmp c influent.
Proof. exact WtwLaws.w_treat_conserves. Qed.
Print Assumptions C01_treatment_step_conserves.
Theorem C01_wwtw_calculate_discharge_conserves : forall S (w : Wtw.wwtw S) c, conserved c -> nonneg (t_sto (Wtw.ww_tank S w)) ->
  let w' := Wtw.ww_calculate_discharge S w in
  (cmp c (Wtw.ww_treated S w') - cmp c (Wtw.ww_treated S w)) + cmp c (Wtw.ww_liquor S w') + cmp c (Wtw.ww_solids S w')
    + cmp c (t_sto (Wtw.ww_tank S w')) ==
  cmp c (Wtw.ww_cur S w) + cmp c (Wtw.ww_liquor S w) + cmp c (t_sto (Wtw.ww_tank S w)).
Proof. exact WtwLaws.ww_calculate_conserves. Qed.
Print Assumptions C01_wwtw_calculate_discharge_conserves.

(* FWTW.treat_water against ANY neighbours meeting the reply contract: reservoir gain + sent to sewers + booked as not taken
   by the sewers = abstracted over the in-arcs + booked as made up (deficit) + treated water still on the books (none after a
   close-out); volume and every additive pollutant, any process parameters and temperature.  The treated water and the waste
   handed on in the step are assumed wet (no pollutant mass without water: well-formed process parameters) *)
Theorem C01_fresh_water_works_keep_their_books : forall S (P : port S) (K : contract S P),
  (forall s v, okS S P K s -> wet v -> forall k, vol (snd (p_push_set P s v)) <= 0 -> get (adds (snd (p_push_set P s v))) k == 0) ->
  forall maxiter (f f' : Wtw.fwtw S) c, conserved c ->
  star_ok S P K (Wtw.fw_ins S f) -> star_ok S P K (Wtw.fw_outs S f) -> 0 <= Wtw.w_cap (Wtw.fw_p S f) ->
  Wtw.fw_treat_water S P maxiter f = Some f' ->
  wet (Wtw.fw_treated S f') -> wet (vsum (Wtw.fw_liquor S f') (Wtw.fw_solids S f')) ->
  (cmp c (t_sto (Wtw.fw_tank S f')) - cmp c (t_sto (Wtw.fw_tank S f)))
  + (sumvin S c (Wtw.fw_outs S f') - sumvin S c (Wtw.fw_outs S f))
  + (cmp c (Wtw.fw_unpushed S f') - cmp c (Wtw.fw_unpushed S f))
  ==
  (sumvin S c (Wtw.fw_ins S f') - sumvin S c (Wtw.fw_ins S f))
  + (cmp c (Wtw.fw_deficit S f') - cmp c (Wtw.fw_deficit S f))
  + cmp c (Wtw.fw_treated S f).
Proof. exact WtwLaws.fw_treat_water_books. Qed.
Print Assumptions C01_fresh_water_works_keep_their_books.
(* ... and its hypotheses are met by a concrete works (one additive pollutant, nothing to abstract from: the whole
   throughput is made up and booked as deficit) *)
Example C01_fresh_water_works_nonvacuous : exists f',
  Wtw.fw_treat_water _ Run.nbport 10 WtwLaws.fw_example = Some f' /\ 0 <= Wtw.w_cap (Wtw.fw_p _ WtwLaws.fw_example) /\
  wet (Wtw.fw_treated _ f') /\ wet (vsum (Wtw.fw_liquor _ f') (Wtw.fw_solids _ f')) /\ 0 < vol (Wtw.fw_deficit _ f').
Proof. exact WtwLaws.fw_example_ok. Qed.
Print Assumptions C01_fresh_water_works_nonvacuous.

(* ... and the wetness of what the works hand on follows from conditions on the PARAMETERS (WtwWet.params_ok: volume shares in
   [0,1) with something for the effluent and something for the waste, positive exponent bases, per pollutant the
   temperature-corrected share kept in the effluent plus the liquor share at most everything): the books close whenever what
   treat_water works on and what was on the books before are wet *)
Theorem C01_fresh_water_works_books_from_parameters : forall S (P : port S) (K : contract S P),
  (forall s v, okS S P K s -> wet v -> forall k, vol (snd (p_push_set P s v)) <= 0 -> get (adds (snd (p_push_set P s v))) k == 0) ->
  forall maxiter (f f' : Wtw.fwtw S) c, conserved c ->
  star_ok S P K (Wtw.fw_ins S f) -> star_ok S P K (Wtw.fw_outs S f) -> 0 <= Wtw.w_cap (Wtw.fw_p S f) ->
  Wtw.fw_treat_water S P maxiter f = Some f' ->
  wet (Wtw.fw_cur S f') -> wet (Wtw.fw_treated S f) -> WtwWet.params_ok (Wtw.fw_p S f) (get (nons (Wtw.fw_cur S f')) 0) ->
  (cmp c (t_sto (Wtw.fw_tank S f')) - cmp c (t_sto (Wtw.fw_tank S f)))
  + (sumvin S c (Wtw.fw_outs S f') - sumvin S c (Wtw.fw_outs S f))
  + (cmp c (Wtw.fw_unpushed S f') - cmp c (Wtw.fw_unpushed S f))
  ==
  (sumvin S c (Wtw.fw_ins S f') - sumvin S c (Wtw.fw_ins S f))
  + (cmp c (Wtw.fw_deficit S f') - cmp c (Wtw.fw_deficit S f))
  + cmp c (Wtw.fw_treated S f).
Proof. exact WtwWet.fw_treat_water_books_from_parameters. Qed.
Print Assumptions C01_fresh_water_works_books_from_parameters.
Theorem C01_treatment_step_hands_on_wet_fluxes : forall p influent treated liquor, wet influent -> wet treated ->
  WtwWet.params_ok p (get (nons influent) 0) ->
  let '(tr, lq, so) := Wtw.w_treat p influent treated liquor in wet tr /\ wet (vsum lq so).
Proof. exact WtwWet.w_treat_wet. Qed.
Print Assumptions C01_treatment_step_hands_on_wet_fluxes.
Example C01_parameter_conditions_nonvacuous : WtwWet.params_ok WtwLaws.fw_example_params (15#1).
Proof. exact WtwWet.params_ok_example. Qed.
Print Assumptions C01_parameter_conditions_nonvacuous.

(* ---- the pervious surface of a Land node (coq/LandV.v, tied by family land) ----
   IHACRES creates and loses no water: soil store after + infiltration excess + subsurface flow + percolation = soil store
   before + rain - evaporation, in every moisture state and for all soil parameters with coefficients in [0, 1] *)
Theorem C01_pervious_surface_water_balance : forall p area t rain et0 T tn,
  0 < area -> 0 <= vol (t_sto t) -> 0 <= et0 -> 0 <= LandV.ps_et0c p -> 0 <= rain -> 0 <= LandV.ps_infil p ->
  0 <= LandV.ps_surf_c p <= 1 -> 0 <= LandV.ps_perc_c p <= 1 ->
  let '(t', excess, ssf, perc, pr, ev) := LandV.ihacres p area t rain et0 T tn in
  vol (t_sto t') + vol excess + vol ssf + vol perc == vol (t_sto t) + pr - ev.
Proof. exact LandLaws.ihacres_water_balance. Qed.
Print Assumptions C01_pervious_surface_water_balance.

(* the routing half of Land.run (percolation to groundwater, surface and subsurface runoff to rivers and junctions, what is
   not placed handed back to the tanks by volume share) against ANY neighbours meeting the reply contract: what the three
   residence tanks of the node hold less is what its out-arcs record as carried more, up to a percolation remainder below
   FLOAT_ACCURACY that the code drops by design - volume and every additive pollutant *)
Theorem C01_land_routing_keeps_the_books : forall S (P : port S) (K : contract S P),
  (forall s v, okS S P K s -> wet v -> forall k, vol (snd (p_push_set P s v)) <= 0 -> get (adds (snd (p_push_set P s v))) k == 0) ->
  forall maxiter sr ssr perc outs sr' ssr' perc' outs' c, conserved c -> star_ok S P K outs ->
  wet (t_sto sr) -> wet (t_sto ssr) -> wet (t_sto perc) -> 0 <= t_res sr -> 0 <= t_res ssr -> 0 <= t_res perc ->
  LandV.ld_route S P maxiter sr ssr perc outs = Some (sr', ssr', perc', outs') ->
  exists dropped, 0 <= dropped /\ (c = SVol -> dropped <= eps) /\
    cmp c (t_sto sr') + cmp c (t_sto ssr') + cmp c (t_sto perc') + (sumvin S c outs' - sumvin S c outs) + dropped
    == cmp c (t_sto sr) + cmp c (t_sto ssr) + cmp c (t_sto perc).
Proof. exact LandRouting.ld_route_books. Qed.
Print Assumptions C01_land_routing_keeps_the_books.
Example C01_land_routing_nonvacuous :
  let sr := LandRouting.ex_tank (6#1) (3#2) (2#1) in let ssr := LandRouting.ex_tank (9#1) (1#1) (3#1) in
  let perc := LandRouting.ex_tank (20#1) (5#1) (10#1) in
  star_ok (Run.nb * Run.nb) Run.nbport tank_contract [] /\
  wet (t_sto sr) /\ wet (t_sto ssr) /\ wet (t_sto perc) /\ 0 <= t_res sr /\ 0 <= t_res ssr /\ 0 <= t_res perc /\
  exists r, LandV.ld_route _ Run.nbport 10 sr ssr perc [] = Some r.
Proof. exact LandRouting.ld_route_example. Qed.
Print Assumptions C01_land_routing_nonvacuous.
