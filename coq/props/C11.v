(* Property C11 — decay only removes, never more than is there, and reports
   what it removed.  Statements only; about the translated
   generic_temperature_decay(_c) of wsimod/core/core.py, for any `pow`
   (the Python power operator) that is positive on positive bases and, for the last clause,
   monotone in the exponent for bases >= 1; both facts are proved for the
   executable surrogate pow_s used by the correspondence check. *)
From Coq Require Import QArith Qminmax List Bool.
From WSI Require Import Vqip Pow CoreLaws Decay.
From WSI Require Tank Arc QTank TankLaws QTankLaws QueueLaws DecayStores DecayQTank Distrib Kinds TimeArea TimeAreaLaws.
From WSI.gen Require Import GenCore.
Import ListNotations.
Open Scope Q_scope.

Definition pow_positive (pow : Q -> Q -> Q) := forall e x, 0 < e -> 0 < pow e x.
Definition pow_monotone (pow : Q -> Q -> Q) := forall e x y, 1 <= e -> x <= y -> pow e x <= pow e y.

(* the reference temperature of the model is the one in the source *)
Theorem C11_fraction_is_the_source_formula : forall pow t d T k,
  get (adds (snd (gen_generic_temperature_decay pow t d T))) k ==
  get (adds t) k * get (map (fun p : Q * Q => Qmin (fst p * pow (snd p) (T - (20#1))) 1) d) k.
Proof. exact rep_add. Qed.
Theorem C11_remaining_plus_reported_is_original : forall pow t d T k,
  get (adds (remaining pow t d T)) k + get (adds (reported pow t d T)) k == get (adds t) k.
Proof. exact decay_partition. Qed.
Theorem C11_never_increases_never_overdraws : forall pow, pow_positive pow -> forall t d T k,
  decays_ok d -> 0 <= get (adds t) k ->
  0 <= get (adds (remaining pow t d T)) k <= get (adds t) k /\
  0 <= get (adds (reported pow t d T)) k <= get (adds t) k.
Proof. exact decay_bounds. Qed.
Theorem C11_frame : forall pow t d T,
  (vol (remaining pow t d T) == vol t /\ vol (reported pow t d T) == 0) /\
  (forall k, get (nons (remaining pow t d T)) k == get (nons t) k) /\
  (forall k, nth_error d k = None ->
     get (adds (remaining pow t d T)) k == get (adds t) k /\ get (adds (reported pow t d T)) k == 0).
Proof.
  exact (fun pow t d T => conj (decay_frame_vol pow t d T)
           (conj (decay_frame_non pow t d T) (decay_frame_noparam pow t d T))).
Qed.
Theorem C11_saturates_above_one : forall pow t d T k p, nth_error d k = Some p ->
  1 <= fst p * pow (snd p) (T - dref) ->
  get (adds (remaining pow t d T)) k == 0 /\ get (adds (reported pow t d T)) k == get (adds t) k.
Proof. exact decay_saturates. Qed.
Theorem C11_warmer_never_decays_less : forall pow, pow_monotone pow -> forall t d T1 T2 k,
  Forall (fun p => 0 <= fst p /\ 1 <= snd p) d -> 0 <= get (adds t) k -> T1 <= T2 ->
  get (adds (remaining pow t d T2)) k <= get (adds (remaining pow t d T1)) k.
Proof. exact decay_warmer. Qed.
Theorem C11_concentration_form : forall pow c d T k,
  get (adds (fst (gen_generic_temperature_decay_c pow c d T))) k * vol c +
  get (adds (snd (gen_generic_temperature_decay_c pow c d T))) k == get (adds c) k * vol c.
Proof. exact decay_c_partition. Qed.
(* any number of consecutive close-outs *)
Theorem C11_n_closeouts_partition : forall pow n t d Ts k,
  get (adds (fst (decay_n pow n t d Ts))) k + get (adds (snd (decay_n pow n t d Ts))) k == get (adds t) k.
Proof. exact decay_n_partition. Qed.
Theorem C11_n_closeouts_bounds : forall pow, pow_positive pow -> forall n t d Ts k,
  decays_ok d -> 0 <= get (adds t) k ->
  0 <= get (adds (fst (decay_n pow n t d Ts))) k <= get (adds t) k.
Proof. exact decay_n_bounds. Qed.
Theorem C11_decay_does_not_modify_its_argument :
  (forall a d T, gen_generic_temperature_decay_after a d T = a) /\
  (forall a d T, gen_generic_temperature_decay_c_after a d T = a).
Proof. exact (conj decay_pure decay_c_pure). Qed.
(* the oracle hypotheses hold for the executable instance *)
Theorem C11_surrogate_pow_ok :
  pow_positive pow_s /\ pow_monotone pow_s /\ (forall b z, pow_s b (inject_Z z) == Qpower b z).
Proof. exact (conj pow_s_pos (conj pow_s_mono pow_s_integer)). Qed.
Example C11_hypotheses_satisfiable :
  let d := [(3#5, 11#10); (1#100, 1#1)] in let t := mkV (5#1) [2#1; 4#1; 1#1] [25#1] in
  (0 <= (3#5) /\ 0 < (11#10)) /\ 1 <= (3#5) * pow_s (11#10) ((30#1) - dref) /\
  get (adds (remaining pow_s t d (30#1))) 0 == 0 /\
  get (adds (remaining pow_s t d (30#1))) 2 == 1.
Proof. vm_compute. repeat split; intro; discriminate. Qed.

Print Assumptions C11_fraction_is_the_source_formula.
Print Assumptions C11_remaining_plus_reported_is_original.
Print Assumptions C11_never_increases_never_overdraws.
Print Assumptions C11_frame.
Print Assumptions C11_saturates_above_one.
Print Assumptions C11_warmer_never_decays_less.
Print Assumptions C11_concentration_form.
Print Assumptions C11_n_closeouts_partition.
Print Assumptions C11_n_closeouts_bounds.
Print Assumptions C11_surrogate_pow_ok.
Print Assumptions C11_decay_does_not_modify_its_argument.

(* ---- the stores and arcs that decay what they hold (Tank.v, Arc.v, QTank.v; DecayStores.v) ----
   Their decay step IS the core function above (with the executable power surrogate, normalised),
   so every law above applies to it; and the accounting identity holds over histories: *)
Theorem C11_store_decay_is_the_core_function : forall d T v,
  Tank.vdecay d T v = (vnorm (fst (gen_generic_temperature_decay pow_s v d T)),
                       vnorm (snd (gen_generic_temperature_decay pow_s v d T))).
Proof. exact DecayStores.vdecay_is_core. Qed.
Print Assumptions C11_store_decay_is_the_core_function.

(* a decaying tank at close-out: remaining + reported = contents before; the lagged copy is the contents before *)
Theorem C11_decaying_tank_closeout : forall t T c, conserved c ->
  cmp c (Tank.t_sto (Tank.t_end t T)) + (match Tank.t_dec t with [] => 0 | _ => cmp c (Tank.t_decayed (Tank.t_end t T)) end)
    == cmp c (Tank.t_sto t) /\
  Tank.t_sto_ (Tank.t_end t T) = Tank.t_sto t.
Proof. exact TankLaws.t_end_closeout. Qed.
Print Assumptions C11_decaying_tank_closeout.

(* ... over any number of consecutive close-outs at any temperatures *)
Theorem C11_decaying_tank_n_closeouts : forall c, conserved c -> forall Ts t,
  cmp c (Tank.t_sto (fst (DecayStores.tank_closeouts c t Ts))) + snd (DecayStores.tank_closeouts c t Ts) == cmp c (Tank.t_sto t).
Proof. exact DecayStores.tank_closeouts_partition. Qed.
Print Assumptions C11_decaying_tank_n_closeouts.

(* a decaying travel-time arc (DecayArcAlt; the queue of a DecayQueueTank): entry decay and close-out decay
   of every parcel in transit are reported exactly *)
Theorem C11_decaying_arc_entry : forall (l : Arc.altarc) time v c, conserved c ->
  QTankLaws.csum c (Arc.l_b (Arc.l_enter l time v)) + cmp c (Arc.l_decayed (Arc.l_enter l time v))
  == QTankLaws.csum c (Arc.l_b l) + cmp c (Arc.l_decayed l) + cmp c v.
Proof. exact DecayStores.l_enter_decay. Qed.
Print Assumptions C11_decaying_arc_entry.

Theorem C11_decaying_arc_closeout : forall (l : Arc.altarc) c, conserved c -> Arc.l_dec l <> [] ->
  QTankLaws.csum c (Arc.l_b (Arc.l_end l)) + cmp c (Arc.l_decayed (Arc.l_end l)) == QTankLaws.csum c (Arc.l_b l).
Proof. exact DecayStores.l_end_decay. Qed.
Print Assumptions C11_decaying_arc_closeout.

(* a decaying queue arc (DecayArc): the same at entry and at close-out *)
Theorem C11_decaying_queue_arc_closeout : forall q c, conserved c -> Arc.q_dec q <> [] ->
  QueueLaws.qsumc c (Arc.q_queue (Arc.q_end q)) + cmp c (Arc.q_decayed (Arc.q_end q)) == QueueLaws.qsumc c (Arc.q_queue q).
Proof. exact DecayStores.q_end_decay. Qed.
Print Assumptions C11_decaying_queue_arc_closeout.

(* a decaying queue tank (DecayQueueTank: QueueGroundwater with decays): over every operation sequence what it
   declares = arrived + in transit + decay applied and not yet reported; the close-out takes the pending decay
   off what is declared and the queue's close-out decay becomes the new pending amount *)
Theorem C11_decaying_queue_tank_ledger : forall ops t, Forall WSI.DecayQTank.qop_wet ops ->
  WSI.DecayQTank.qledger t /\ WSI.DecayQTank.plain_quiet t ->
  forall k, let t' := fold_left (fun s o => fst (QTank.qtank_do s o)) (firstn k ops) t in
            WSI.DecayQTank.qledger t' /\ WSI.DecayQTank.plain_quiet t'.
Proof. exact WSI.DecayQTank.qtank_run_ledger. Qed.
Print Assumptions C11_decaying_queue_tank_ledger.

(* reaching into a decaying queue tank from outside (QueueGroundwater.pull_set_active): the decay the queue has applied
   and the next close-out still has to book is neither dropped nor rescaled by an abstraction - the report stays, and
   what the tank declares remains what it holds plus that report *)
Theorem C11_abstraction_leaves_the_pending_decay_alone : forall S (n : TimeArea.qnode S) q, DecayQTank.qledger (TimeArea.qn_t S n) ->
  DecayQTank.qledger (TimeArea.qn_t S (fst (TimeArea.qg_pull_set S n q))) /\
  (forall c, conserved c ->
     cmp c (snd (TimeArea.qg_pull_set S n q)) ==
     cmp c (QTank.s_sto (QTank.qt_s (TimeArea.qn_t S n))) - cmp c (QTank.s_sto (QTank.qt_s (TimeArea.qn_t S (fst (TimeArea.qg_pull_set S n q)))))) /\
  Arc.l_decayed (QTank.qt_l (TimeArea.qn_t S (fst (TimeArea.qg_pull_set S n q)))) = Arc.l_decayed (QTank.qt_l (TimeArea.qn_t S n)).
Proof. exact TimeAreaLaws.qg_pull_ledger. Qed.
Print Assumptions C11_abstraction_leaves_the_pending_decay_alone.
