(* Property C16 — timestep protocol: upstream-first rivers, exactly once.
   Statements only (proofs in Orch.v), about the model of Model.add_arcs /
   assign_upstream / river_discharge_order that the correspondence check
   compares with the implementation on random river graphs.  `path arcs u v` is
   reachability through river/junction/reservoir arcs; `before u v l` says u
   occurs earlier than v in l.  The call-sequence part of the protocol
   (orchestration order, once per node, close-out order, recorded flow = flow
   delivered) is checked on the implementation by the event-log monitor. *)
From Coq Require Import List Arith Bool.
From WSI Require Import Orch.
Import ListNotations.

(* a river discharges before every river it can reach, for ANY arc list (convergent or divergent,
   any insertion order) whose levels converged - which the model reports and the check watches *)
Theorem C16_upstream_first : forall arcs outlets is_river u v l,
  assign_upstream arcs outlets = (l, true) ->
  path arcs u v -> is_river u = true -> is_river v = true -> In v (keys l) ->
  before u v (river_order arcs outlets is_river).
Proof. exact upstream_first. Qed.
Print Assumptions C16_upstream_first.

(* every river that got a level (i.e. drains, directly or not, to an outlet) discharges exactly once *)
Theorem C16_every_river_exactly_once : forall arcs outlets is_river, NoDup outlets ->
  NoDup (river_order arcs outlets is_river) /\
  forall n, In n (keys (fst (assign_upstream arcs outlets))) -> is_river n = true ->
            In n (river_order arcs outlets is_river).
Proof. exact every_levelled_once. Qed.
Print Assumptions C16_every_river_exactly_once.

(* converged levels strictly decrease along every river arc, and whatever drains to a levelled node is levelled *)
Theorem C16_levels_decrease_downstream : forall fuel arcs l l', relax fuel arcs l = (l', true) -> stable arcs l'.
Proof. exact relax_converged_stable. Qed.
Print Assumptions C16_levels_decrease_downstream.

Example C16_divergent_example :
  river_order [(1, 2); (2, 3); (3, 0); (1, 0)] [0] (fun n => negb (Nat.eqb n 0)) = [1; 2; 3].
Proof. vm_compute. reflexivity. Qed.
