(* Property C17 — boundary fidelity.  Statements only (proofs in BoundaryLaws.v
   and KindLaws.v / Kinds.v), about the models of the boundary functions that
   the correspondence check runs against catchment.py, land.py and demand.py. *)
From Coq Require Import QArith Qminmax List Bool Arith.
From WSI Require Import Vqip Pow Tank Arc QTank Distrib Kinds Boundary Run TankLaws ArcLaws QueueLaws DistribLaws KindLaws BoundaryLaws.
From WSI Require TimeArea Demand DemandLaws LandV LandLaws.
Import ListNotations.
Open Scope Q_scope.

Theorem C17_rain_is_depth_times_area : forall t area c rain et0 tn,
  snd (fst (imp_precip_evap t area c rain et0 tn)) == rain * area.
Proof. exact rain_is_depth_times_area. Qed.
Print Assumptions C17_rain_is_depth_times_area.
Theorem C17_evaporation_within_potential_and_available : forall t area c rain et0 tn,
  0 <= area -> 0 <= rain -> 0 <= et0 * c -> 0 <= vol (t_sto t) ->
  let r := imp_precip_evap t area c rain et0 tn in
  let evap := snd r in let t' := fst (fst r) in
  0 <= evap /\ evap <= et0 * c * area /\ evap <= rain * area + vol (t_sto t) /\
  vol (t_sto t') == vol (t_sto t) + rain * area - evap.
Proof. exact evaporation_bounded. Qed.
Print Assumptions C17_evaporation_within_potential_and_available.
Theorem C17_deposition_is_load_times_area : forall t area load k,
  let r := simple_deposition t area load in
  get (adds (snd r)) k == get load k * area /\ vol (snd r) == 0 /\
  get (adds (t_sto (fst r))) k == get (adds (t_sto t)) k + get load k * area /\
  vol (t_sto (fst r)) == vol (t_sto t).
Proof. exact deposition_is_load_times_area. Qed.
Print Assumptions C17_deposition_is_load_times_area.
Theorem C17_household_demand : forall pop pc load T others k,
  vol (house_demand pop pc load T others) == pop * pc /\
  get (adds (house_demand pop pc load T others)) k == get load k * pop.
Proof. exact house_demand_is_population_times_per_capita. Qed.
Print Assumptions C17_household_demand.
(* catchment: the flow read from the data, pollutant mass = concentration x flow *)
Theorem C17_catchment_flow_is_the_data : forall flow conc quality k,
  vol (ca_get_flow flow conc quality) == flow /\
  get (adds (ca_get_flow flow conc quality)) k == get conc k * flow /\
  get (nons (ca_get_flow flow conc quality)) k == get quality k.
Proof. exact catchment_flow_is_data. Qed.
Print Assumptions C17_catchment_flow_is_the_data.

(* a demand node declares as generated exactly the items of the timestep (coq/Demand.v, tied by family demand): for the
   plain Demand the constant demand with its pollutant load, for ResidentialDemand the garden water asked of Land
   neighbours times the gardening efficiency and the house water population x per-capita use with population x load *)
Theorem C17_demand_declares_what_it_generates : forall S (P : port S) (K : contract S P),
  (forall s v, okS S P K s -> wet v -> forall k, vol (snd (p_push_set P s v)) <= 0 -> get (adds (snd (p_push_set P s v))) k == 0) ->
  forall maxiter (n n' : Demand.dmnode S) its,
  star_ok S P K (Demand.dm_ins S n) -> star_ok S P K (Demand.dm_outs S n) -> (forall i, In i its -> wet (fst i)) ->
  Demand.dm_create S P maxiter n its = Some n' ->
  forall c, conserved c -> cmp c (Demand.dm_demand S n') - cmp c (Demand.dm_demand S n) == DemandLaws.isum c its.
Proof. intros S P K Hw maxiter n n' its Hi Ho Hit Hrun c Hc.
       exact (proj2 (proj2 (proj2 (proj2 (DemandLaws.dm_create_books S P K Hw maxiter n n' its Hi Ho Hit Hrun)) c Hc))). Qed.
Print Assumptions C17_demand_declares_what_it_generates.
Example C17_items_of_the_two_demand_classes : forall S (P : port S) (n : Demand.dmnode S) cd load na nn eff house,
  Demand.items_plain cd load nn = [(vnorm (mkV cd load (repeat 0 nn)), None)] /\
  map snd (Demand.items_residential S P n na nn eff house) = [Some [TimeArea.T_LAND]; Some [T_SEWER]] /\
  fst (nth 1 (Demand.items_residential S P n na nn eff house) (vzero, None)) = house.
Proof. intros. repeat split. Qed.
Print Assumptions C17_items_of_the_two_demand_classes.

(* rain and evaporation on a PERVIOUS surface (coq/LandV.v ihacres, tied by family land): the rain it declares is depth
   times area; the evaporation it declares never exceeds potential evaporation times its coefficient times area, nor the
   rain plus the water the soil held - in every moisture state, for all soil parameters *)
Theorem C17_pervious_surface_rain_and_evaporation : forall p area t rain et0 T tn,
  0 < area -> 0 <= et0 -> 0 <= LandV.ps_et0c p -> 0 <= rain -> 0 <= LandV.ps_infil p ->
  let '(t', excess, ssf, perc, pr, ev) := LandV.ihacres p area t rain et0 T tn in
  pr == rain * area /\ ev <= et0 * LandV.ps_et0c p * area /\ ev <= (rain + vol (t_sto t) / area) * area.
Proof. exact LandLaws.ihacres_boundary. Qed.
Print Assumptions C17_pervious_surface_rain_and_evaporation.
