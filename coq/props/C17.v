(* Property C17 — boundary fidelity.  Statements only (proofs in BoundaryLaws.v
   and KindLaws.v / Kinds.v), about the models of the boundary functions that
   the correspondence check runs against catchment.py, land.py and demand.py. *)
From Coq Require Import QArith Qminmax List Bool Arith.
From WSI Require Import Vqip Pow Tank Arc QTank Distrib Kinds Boundary Run TankLaws ArcLaws QueueLaws DistribLaws KindLaws BoundaryLaws.
Import ListNotations.
Open Scope Q_scope.

Theorem C17_rain_is_depth_times_area : forall t area c rain et0 tn,
  snd (fst (imp_precip_evap t area c rain et0 tn)) == rain * area.
Proof. exact rain_is_depth_times_area. Qed.
Print Assumptions C17_rain_is_depth_times_area.
Theorem C17_evaporation_within_potential_and_available : forall t area c rain et0 tn,
  0 <= area -> 0 <= rain -> 0 <= et0 * c -> 0 <= vol (t_sto t) ->
  let r := imp_precip_evap t area c rain et0 tn in
  let evap := snd r in let t' := fst (fst r) in
  0 <= evap /\ evap <= et0 * c * area /\ evap <= rain * area + vol (t_sto t) /\
  vol (t_sto t') == vol (t_sto t) + rain * area - evap.
Proof. exact evaporation_bounded. Qed.
Print Assumptions C17_evaporation_within_potential_and_available.
Theorem C17_deposition_is_load_times_area : forall t area load k,
  let r := simple_deposition t area load in
  get (adds (snd r)) k == get load k * area /\ vol (snd r) == 0 /\
  get (adds (t_sto (fst r))) k == get (adds (t_sto t)) k + get load k * area /\
  vol (t_sto (fst r)) == vol (t_sto t).
Proof. exact deposition_is_load_times_area. Qed.
Print Assumptions C17_deposition_is_load_times_area.
Theorem C17_household_demand : forall pop pc load T others k,
  vol (house_demand pop pc load T others) == pop * pc /\
  get (adds (house_demand pop pc load T others)) k == get load k * pop.
Proof. exact house_demand_is_population_times_per_capita. Qed.
Print Assumptions C17_household_demand.
(* catchment: the flow read from the data, pollutant mass = concentration x flow *)
Theorem C17_catchment_flow_is_the_data : forall flow conc quality k,
  vol (ca_get_flow flow conc quality) == flow /\
  get (adds (ca_get_flow flow conc quality)) k == get conc k * flow /\
  get (nons (ca_get_flow flow conc quality)) k == get quality k.
Proof. exact catchment_flow_is_data. Qed.
Print Assumptions C17_catchment_flow_is_the_data.
