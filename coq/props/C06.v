(* Property C06 — nothing goes negative: stores, flows and replies stay
   non-negative (exact arithmetic; IEEE rounding is outside the model and is
   watched by the float monitor).  Statements only. *)
From Coq Require Import QArith Qminmax List Bool Arith.
From WSI Require Import Vqip Pow Tank Arc QTank Run TankLaws ArcLaws QTankLaws QueueLaws Refuted.
Import ListNotations.
Open Scope Q_scope.

Theorem C06_tank_push_keeps_signs : forall t v force, nonneg (t_sto t) -> wet v ->
  nonneg (t_sto (fst (t_push t v force))) /\ nonneg (snd (t_push t v force)).
Proof. exact t_push_nonneg. Qed.
Print Assumptions C06_tank_push_keeps_signs.
Theorem C06_tank_pull_keeps_signs : forall t v, nonneg (t_sto t) -> 0 <= v ->
  nonneg (t_sto (fst (t_pull t v))) /\ nonneg (snd (t_pull t v)).
Proof. exact t_pull_nonneg. Qed.
Print Assumptions C06_tank_pull_keeps_signs.
Theorem C06_tank_pollutant_pull_keeps_signs : forall t v c, conserved c -> nonneg (t_sto t) -> nonneg v ->
  0 <= cmp c (snd (t_pull_pollutants t v)) <= cmp c (t_sto t) /\
  cmp c (snd (t_pull_pollutants t v)) <= cmp c v /\
  cmp c (t_sto (fst (t_pull_pollutants t v))) == cmp c (t_sto t) - cmp c (snd (t_pull_pollutants t v)).
Proof. exact t_pull_pollutants_spec. Qed.
Print Assumptions C06_tank_pollutant_pull_keeps_signs.
Theorem C06_tank_evaporation_keeps_signs : forall t e, 0 <= e -> 0 <= vol (t_sto t) ->
  snd (t_evaporate t e) <= e /\ 0 <= snd (t_evaporate t e) <= vol (t_sto t) /\
  vol (t_sto (fst (t_evaporate t e))) == vol (t_sto t) - snd (t_evaporate t e) /\
  (forall k, get (adds (t_sto (fst (t_evaporate t e)))) k == get (adds (t_sto t)) k).
Proof. exact t_evaporate_spec. Qed.
Print Assumptions C06_tank_evaporation_keeps_signs.

(* plain arcs between contract-respecting ends (which includes: ends stay non-negative):
   records, flows and replies stay non-negative over every operation sequence *)
Theorem C06_plain_arc_records_nonneg : forall S P (K : contract S P) k ops a s,
  Forall op_ok ops -> okS S P K s -> arc_ok a ->
  arc_ok (fst (arc_run S P k (a, s) ops)) /\ okS S P K (snd (arc_run S P k (a, s) ops)) /\
  a_cap (fst (arc_run S P k (a, s) ops)) = a_cap a.
Proof. exact arc_run_inv. Qed.
Print Assumptions C06_plain_arc_records_nonneg.
Theorem C06_plain_arc_push_reply_nonneg : forall S P (K : contract S P) a s v,
  okS S P K s -> wet v -> arc_ok a ->
  let a' := fst (fst (a_send_push S P a s v false)) in
  let s' := snd (fst (a_send_push S P a s v false)) in
  let r := snd (a_send_push S P a s v false) in
  okS S P K s' /\ arc_ok a' /\
  (forall c, conserved c -> 0 <= cmp c r <= cmp c v) /\
  (forall c, conserved c -> cmp c (a_vin a') == cmp c (a_vin a) + (cmp c v - cmp c r)) /\
  (forall c, conserved c -> cmp c (sto_out S P K s') == cmp c (sto_out S P K s) + (cmp c v - cmp c r)) /\
  (forall c, conserved c -> cmp c (sto_in S P K s') == cmp c (sto_in S P K s)) /\
  a_fin a' == a_fin a + (vol v - vol r) /\ a_cap a' = a_cap a.
Proof. exact a_push_spec. Qed.
Print Assumptions C06_plain_arc_push_reply_nonneg.

(* queue tanks: arrived water and every bucket stay non-negative (part of qt_ok) *)
Theorem C06_queue_tank_keeps_signs : forall t v time, qt_ok t -> wet v -> eps <= vol v ->
  qt_ok (fst (qt_push t v time false)) /\
  (forall c, conserved c -> 0 <= cmp c (snd (qt_push t v time false)) <= cmp c v).
Proof.
  exact (fun t v time H1 H2 H3 =>
    match qt_push_spec t v time H1 H2 H3 with conj Hok (conj Hr _) => conj Hok Hr end).
Qed.
Print Assumptions C06_queue_tank_keeps_signs.
(* queue arcs: admitted flow stays in [0, capacity] *)
Theorem C06_queue_arc_flow_nonneg : forall S P (K : contract S P) ops n q s,
  Forall op_ok ops -> okS S P K s -> qarc_ok q ->
  let q' := fst (qarc_run S P (q, s) (firstn n ops)) in 0 <= a_fin (q_a q') <= a_cap (q_a q).
Proof. exact qarc_admission_every_prefix. Qed.
Print Assumptions C06_queue_arc_flow_nonneg.

(* REFUTED part (known finding): the inflow record of a queue arc goes negative when a
   request admitted in an earlier timestep bounces *)
Example C06_refuted_backflow : vol (a_vin (q_a w_c06_final)) < 0.
Proof. exact C06_refuted_late_bounce. Qed.
Print Assumptions C06_refuted_backflow.
