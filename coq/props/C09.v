(* Property C09 — travel time: delayed water arrives neither early nor late, and
   none is lost.  Statements only (proofs in QTankLaws.v / QueueLaws.v), about
   the executable models QTank.v / Arc.v that the correspondence check runs
   against wsimod.nodes.tanks.QueueTank and wsimod.arcs.arcs.{QueueArc,
   DecayArc, AltQueueArc}.  `bucket t k` is the water with k close-outs still
   to go, `act t` the part that has arrived, `sto t` the contents incl. transit. *)
From Coq Require Import QArith Qminmax List Bool Arith.
From WSI Require Import Vqip Pow Tank Arc QTank Run TankLaws ArcLaws QTankLaws QueueLaws.
From WSI Require Import Distrib Kinds TimeArea DecayQTank QTankErasure Erasure TimeAreaLaws TimeAreaArrival.
Import ListNotations.
Open Scope Q_scope.

(* a push with built-in delay n and extra delay `time` lands in bucket n+time, is
   active at once only when that is 0, counts towards contents and capacity *)
Theorem C09_push_lands_in_the_bucket_of_its_delay : forall t v time,
  qt_ok t -> wet v -> eps <= vol v ->
  let D := (time + delay t)%nat in
  let t' := fst (qt_push t v time false) in let r := snd (qt_push t v time false) in
  qt_ok t' /\
  (forall c, conserved c -> 0 <= cmp c r <= cmp c v) /\
  (forall c, conserved c -> cmp c (sto t') == cmp c (sto t) + (cmp c v - cmp c r)) /\
  vol (sto t') <= Qmax (cap t) (vol (sto t)) /\
  (forall c, conserved c -> cmp c (act t') == cmp c (act t) + (if Nat.eqb D 0 then cmp c v - cmp c r else 0)) /\
  (forall c k, conserved c -> k <> O ->
     cmp c (bucket t' k) == cmp c (bucket t k) + (if Nat.eqb k D then cmp c v - cmp c r else 0)) /\
  cap t' = cap t /\ delay t' = delay t.
Proof. exact qt_push_spec. Qed.
Print Assumptions C09_push_lands_in_the_bucket_of_its_delay.

(* one close-out moves every bucket one step nearer and releases bucket 1 *)
Theorem C09_closeout_shifts_by_one : forall t T, qt_ok t ->
  let t' := qt_end (qt_set_T t T) in
  qt_ok t' /\
  (forall c, conserved c -> cmp c (act t') == cmp c (act t) + cmp c (bucket t 1)) /\
  (forall c k, conserved c -> cmp c (bucket t' (S k)) == cmp c (bucket t (S (S k)))) /\
  (forall c, conserved c -> cmp c (sto t') == cmp c (sto t)) /\
  s_sto_ (qt_s t') = sto t /\ cap t' = cap t /\ delay t' = delay t.
Proof. exact qt_end_spec. Qed.
Print Assumptions C09_closeout_shifts_by_one.

(* m close-outs: exactly buckets 1..m have arrived, the rest moved m steps; nothing lost *)
Theorem C09_m_closeouts : forall m t T, qt_ok t ->
  qt_ok (ends m t T) /\
  (forall c, conserved c -> cmp c (act (ends m t T)) == cmp c (act t) + psum (fun i => cmp c (bucket t (S i))) m) /\
  (forall c k, conserved c -> cmp c (bucket (ends m t T) (S k)) == cmp c (bucket t (S k + m))) /\
  (forall c, conserved c -> cmp c (sto (ends m t T)) == cmp c (sto t)).
Proof. exact qt_ends_spec. Qed.
Print Assumptions C09_m_closeouts.

(* impulse response: not before D close-outs, exactly from the D-th on *)
Theorem C09_no_early_no_late_arrival : forall t v time T, qt_ok t -> wet v -> eps <= vol v ->
  let D := (time + delay t)%nat in
  let tp := fst (qt_push t v time false) in
  let entered c := cmp c v - cmp c (snd (qt_push t v time false)) in
  forall c, conserved c -> forall m,
    cmp c (act (ends m tp T)) - cmp c (act (ends m t T)) == (if Nat.leb D m then entered c else 0) /\
    (forall k, cmp c (bucket (ends m tp T) (S k)) - cmp c (bucket (ends m t T) (S k)) ==
      (if Nat.eqb (S k + m) D then entered c else 0)).
Proof. exact qt_impulse. Qed.
Print Assumptions C09_no_early_no_late_arrival.

(* pulls can only take what has arrived; water in transit is untouched *)
Theorem C09_pull_only_from_arrived : forall t q, qt_ok t -> 0 <= q ->
  let t' := fst (qt_pull t q) in let r := snd (qt_pull t q) in
  qt_ok t' /\ vol r <= q /\
  (forall c, conserved c -> 0 <= cmp c r <= cmp c (act t)) /\
  (forall c, conserved c -> cmp c (act t') == cmp c (act t) - cmp c r) /\
  (forall c, conserved c -> cmp c (sto t') == cmp c (sto t) - cmp c r) /\
  (forall k, bucket t' k = bucket t k) /\ cap t' = cap t /\ delay t' = delay t.
Proof. exact qt_pull_spec. Qed.
Print Assumptions C09_pull_only_from_arrived.

(* time-area diagrams: the fractions add up to what was pushed *)
Theorem C09_timearea_fractions_add_up : forall c v fs,
  conserved c -> wet v -> fsum fs == 1 -> parts_sum c v fs == cmp c v.
Proof. exact timearea_split. Qed.
Print Assumptions C09_timearea_fractions_add_up.

(* queue arcs: update_queue delivers or bounces exactly the requests of its
   direction whose remaining time is 0 (none earlier, none left waiting), for
   any behaviour of the far end; close-out lowers every remaining time by one *)
Theorem C09_queue_arc_delivers_exactly_the_due_requests : forall S P push rs s fout removed back rs' s' fo rm bk,
  q_update_loop S P push rs s fout removed back = (rs', s', fo, rm, bk) ->
  rs' = filter (is_kept push) rs /\
  forall c, conserved c ->
    cmp c rm + cmp c bk == cmp c removed + cmp c back + qsumc c (filter (is_due push) rs).
Proof. exact q_loop_spec. Qed.
Print Assumptions C09_queue_arc_delivers_exactly_the_due_requests.

Theorem C09_queue_arc_closeout_counts_down : forall q c, conserved c ->
  a_vin (q_a (q_end q)) = vzero /\ a_vout (q_a (q_end q)) = vzero /\
  a_fin (q_a (q_end q)) = 0 /\ a_fout (q_a (q_end q)) = 0 /\ a_cap (q_a (q_end q)) = a_cap (q_a q) /\
  map r_time (q_queue (q_end q)) = map (fun r => pred (r_time r)) (q_queue q) /\
  map r_push (q_queue (q_end q)) = map r_push (q_queue q) /\
  (q_dec q <> [] -> qsumc c (q_queue (q_end q)) + cmp c (q_decayed (q_end q)) == qsumc c (q_queue q)) /\
  (q_dec q = [] -> map r_v (q_queue (q_end q)) = map r_v (q_queue q) /\ q_decayed (q_end q) = q_decayed q) /\
  q_qs_ (q_end q) = q_qs q.
Proof. exact q_end_spec. Qed.
Print Assumptions C09_queue_arc_closeout_counts_down.

(* a time-area push into a Sewer or a QueueGroundwater (every fraction of the flow sent into the queue tank with its
   own delay): while in transit the water counts towards the contents - the tank declares what has arrived plus what
   is queued (plus decay still to be booked) after the push as before it *)
Theorem C09_time_area_push_keeps_the_contents_declared : forall S (n : qnode S) v, wet v ->
  (forall tf, In tf (qn_ta S n) -> 0 <= snd tf <= 1) ->
  qledger (qn_t S n) /\ plain_quiet (qn_t S n) ->
  qledger (qn_t S (fst (qn_push_timearea S n v))) /\ plain_quiet (qn_t S (fst (qn_push_timearea S n v))).
Proof. exact qn_push_timearea_ledger. Qed.
Print Assumptions C09_time_area_push_keeps_the_contents_declared.

(* a time-area split sends each fraction with its own delay: after push_set_land / push_set_timearea the bucket with k
   close-outs to go has grown by exactly the fractions whose delay is k (each less what the tank handed back of it),
   what has arrived by the fractions with delay 0; with the arrival theorems above each fraction is usable after exactly
   its own number of close-outs *)
Theorem C09_time_area_fractions_land_in_their_own_buckets : forall ta t v reply, qt_ok t -> wet v ->
  (forall tf, In tf ta -> 0 <= snd tf <= 1 /\ eps <= vol v * snd tf) ->
  let t' := fst (ta_push t v ta reply) in
  qt_ok t' /\ delay t' = delay t /\
  (forall c, conserved c -> cmp c (act t') == cmp c (act t) + ta_landed c t v ta 0) /\
  (forall c k, conserved c -> k <> O -> cmp c (bucket t' k) == cmp c (bucket t k) + ta_landed c t v ta k).
Proof. exact ta_push_lands. Qed.
Print Assumptions C09_time_area_fractions_land_in_their_own_buckets.

(* a decaying queue tank keeps the timetable of the plain one: the same operations on a QueueTank and a
   DecayQueueTank of the same dimensions make the same VOLUMES available at every step (with the arrival theorems
   above: neither early nor late for the decaying tank either) *)
Theorem C09_decaying_queue_tank_keeps_the_timetable : forall ops ops' t u, same_qt t u -> Forall2 same_op ops ops' ->
  Forall2 same_vol (qrun t ops) (qrun u ops').
Proof. exact sq_run. Qed.
Print Assumptions C09_decaying_queue_tank_keeps_the_timetable.

(* re-initialisation (QueueTank.reinit, reached by Sewer.reinit / Storage.reinit / Model.reinit): what remains is an empty
   tank of the same capacity and built-in delay to which every theorem above applies; the first push afterwards arrives
   after exactly its delay, whatever the tank had been used for (bucket horizons of earlier pushes included) *)
Theorem C09_reinit_leaves_an_empty_tank_with_the_same_timetable : forall t, plain t -> 0 <= a_cap (l_a (qt_l t)) ->
  qt_ok (qt_reinit t) /\ sto (qt_reinit t) = vzero /\ act (qt_reinit t) = vzero /\
  (forall k c, cmp c (bucket (qt_reinit t) k) == 0) /\ cap (qt_reinit t) = cap t /\ delay (qt_reinit t) = delay t /\
  a_fin (l_a (qt_l (qt_reinit t))) = 0.
Proof. exact qt_reinit_ok. Qed.
Print Assumptions C09_reinit_leaves_an_empty_tank_with_the_same_timetable.

Theorem C09_first_push_after_reinit_arrives_when_due : forall t v time T,
  plain t -> 0 <= a_cap (l_a (qt_l t)) -> wet v -> eps <= vol v ->
  let t0 := qt_reinit t in
  let entered c := cmp c v - cmp c (snd (qt_push t0 v time false)) in
  forall c, conserved c -> forall m,
    cmp c (act (ends m (fst (qt_push t0 v time false)) T)) == (if Nat.leb (time + delay t) m then entered c else 0).
Proof. exact qt_reinit_then_push. Qed.
Print Assumptions C09_first_push_after_reinit_arrives_when_due.

(* the hypotheses are met by a concrete non-trivial state *)
Example C09_nonvacuous :
  let t := qt_init (10#1) (mkV (2#1) [1#2] [15#1]) 2 [] in
  qt_ok t /\ wet (mkV (3#1) [1#1] [20#1]) /\ eps <= 3.
Proof. exact qt_example_ok. Qed.
Print Assumptions C09_nonvacuous.
