(* Property C05 — capacities hold: arcs never over-admit, unforced pushes never
   overfill a store.  Statements only; proofs in ArcLaws.v, QueueLaws.v,
   TankLaws.v, QTankLaws.v, about the executable models that the
   correspondence check runs against wsimod.arcs.arcs and wsimod.nodes.tanks.
   `contract` = the reply contract of the end nodes (a receiver answers a wet
   offer with a remainder between nothing and the offer, a supplier returns at
   most what was asked); the theorems hold for EVERY pair of ends meeting it. *)
From Coq Require Import QArith Qminmax List Bool Arith.
From WSI Require Import Vqip Pow Tank Arc QTank Run TankLaws ArcLaws QTankLaws QueueLaws.
From WSI Require Consts.
From WSI.gen Require GenConst.
Import ListNotations.
Open Scope Q_scope.

(* plain, pull-only and push-only arcs: every admissible operation sequence
   (wet offers, non-negative requests, checks, timestep ends; no arc-level force), every prefix *)
Theorem C05_arc_never_over_admits : forall S P (K : contract S P) k ops n a s,
  Forall op_ok ops -> okS S P K s -> arc_ok a ->
  let a' := fst (arc_run S P k (a, s) (firstn n ops)) in 0 <= a_fin a' <= a_cap a.
Proof. exact arc_admission_every_prefix. Qed.
Print Assumptions C05_arc_never_over_admits.

(* the admitted flow is lowered only by a timestep end *)
Theorem C05_flow_reset_only_at_timestep_end : forall S P (K : contract S P) k a s o,
  op_ok o -> okS S P K s -> arc_ok a -> o <> AEnd ->
  a_fin a <= a_fin (fst (fst (arc_do S P k a s o))).
Proof. exact arc_flow_monotone. Qed.
Print Assumptions C05_flow_reset_only_at_timestep_end.

(* travel-time arcs: the travel-time-averaged admitted flow stays within capacity *)
Theorem C05_queue_arc_never_over_admits : forall S P (K : contract S P) ops n q s,
  Forall op_ok ops -> okS S P K s -> qarc_ok q ->
  let q' := fst (qarc_run S P (q, s) (firstn n ops)) in 0 <= a_fin (q_a q') <= a_cap (q_a q).
Proof. exact qarc_admission_every_prefix. Qed.
Print Assumptions C05_queue_arc_never_over_admits.

(* stores: an unforced push never raises the level above max(capacity, level before),
   in EVERY state (hence after every history) *)
Theorem C05_unforced_push_never_overfills_a_tank : forall t v,
  vol (t_sto (fst (t_push t v false))) <= Qmax (t_cap t) (vol (t_sto t)).
Proof. exact t_push_fill. Qed.
Print Assumptions C05_unforced_push_never_overfills_a_tank.

Theorem C05_what_does_not_fit_is_returned : forall t v c, conserved c -> wet v ->
  cmp c (t_sto (fst (t_push t v false))) + cmp c (snd (t_push t v false)) == cmp c (t_sto t) + cmp c v.
Proof. exact t_push_conserves. Qed.
Print Assumptions C05_what_does_not_fit_is_returned.

(* queue tanks: the level that is limited includes the water still queued inside *)
Theorem C05_unforced_push_never_overfills_a_queue_tank : forall t v time,
  qt_ok t -> wet v -> eps <= vol v ->
  let t' := fst (qt_push t v time false) in
  vol (sto t') <= Qmax (cap t) (vol (sto t)) /\
  (forall c, conserved c -> cmp c (sto t') == cmp c (act t') + csum c (l_b (qt_l t'))).
Proof.
  exact (fun t v time H1 H2 H3 =>
    match qt_push_spec t v time H1 H2 H3 with
    | conj (conj _ (conj _ (conj Hs _))) (conj _ (conj _ (conj Hf _))) => conj Hf Hs
    end).
Qed.
Print Assumptions C05_unforced_push_never_overfills_a_queue_tank.

(* pulling, evaporating and pollutant pulls never take more than is there *)
Theorem C05_pull_takes_at_most_what_is_there : forall t v c, conserved c -> nonneg (t_sto t) -> 0 <= v ->
  0 <= cmp c (snd (t_pull t v)) <= cmp c (t_sto t) /\
  cmp c (t_sto (fst (t_pull t v))) == cmp c (t_sto t) - cmp c (snd (t_pull t v)) /\
  vol (snd (t_pull t v)) <= v.
Proof. exact t_pull_spec. Qed.
Print Assumptions C05_pull_takes_at_most_what_is_there.
Theorem C05_evaporation_takes_at_most_what_is_there : forall t e, 0 <= e -> 0 <= vol (t_sto t) ->
  snd (t_evaporate t e) <= e /\ 0 <= snd (t_evaporate t e) <= vol (t_sto t) /\
  vol (t_sto (fst (t_evaporate t e))) == vol (t_sto t) - snd (t_evaporate t e) /\
  (forall k, get (adds (t_sto (fst (t_evaporate t e)))) k == get (adds (t_sto t)) k).
Proof. exact t_evaporate_spec. Qed.
Print Assumptions C05_evaporation_takes_at_most_what_is_there.
Theorem C05_pollutant_pull_takes_at_most_what_is_there : forall t v c, conserved c -> nonneg (t_sto t) -> nonneg v ->
  0 <= cmp c (snd (t_pull_pollutants t v)) <= cmp c (t_sto t) /\
  cmp c (snd (t_pull_pollutants t v)) <= cmp c v /\
  cmp c (t_sto (fst (t_pull_pollutants t v))) == cmp c (t_sto t) - cmp c (snd (t_pull_pollutants t v)).
Proof. exact t_pull_pollutants_spec. Qed.
Print Assumptions C05_pollutant_pull_takes_at_most_what_is_there.
Theorem C05_queue_tank_pull_takes_at_most_what_has_arrived : forall t q, qt_ok t -> 0 <= q ->
  let t' := fst (qt_pull t q) in let r := snd (qt_pull t q) in
  qt_ok t' /\ vol r <= q /\
  (forall c, conserved c -> 0 <= cmp c r <= cmp c (act t)) /\
  (forall c, conserved c -> cmp c (act t') == cmp c (act t) - cmp c r) /\
  (forall c, conserved c -> cmp c (sto t') == cmp c (sto t) - cmp c r) /\
  (forall k, bucket t' k = bucket t k) /\ cap t' = cap t /\ delay t' = delay t.
Proof. exact qt_pull_spec. Qed.
Print Assumptions C05_queue_tank_pull_takes_at_most_what_has_arrived.

(* the contract is inhabited: tank-backed end nodes (what the correspondence check uses) meet it *)
Example C05_contract_is_met_by_tanks : contract (nb * nb) nbport.
Proof. exact tank_contract. Qed.
Print Assumptions C05_contract_is_met_by_tanks.

(* the thresholds of the models are the constants of the tree under test (T4) *)
Theorem C05_constants_as_modelled :
  (WSI.gen.GenConst.c_float_accuracy, WSI.gen.GenConst.c_unbounded_capacity, WSI.gen.GenConst.c_decay_reference_temperature,
   WSI.gen.GenConst.c_maxiter) = WSI.Consts.modelled_constants.
Proof. exact WSI.Consts.constants_as_modelled. Qed.
Print Assumptions C05_constants_as_modelled.
