(* Property C10 — flux algebra.  Statements only; every proof is `exact`. 
   All theorems are about the definitions translated from wsimod/core/core.py
   (WSI.gen.GenCore), for vectors of pollutants of any length. *)
From Coq Require Import QArith Qminmax List Bool.
Import ListNotations.
From WSI Require Import Vqip CoreLaws CoreBridge.
From WSI.gen Require Import GenCore.
Open Scope Q_scope.

(* combining adds volume and additive mass exactly *)
Theorem C10_sum_adds_exactly : forall a b c, conserved c ->
  cmp c (gen_sum_vqip a b) == cmp c a + cmp c b.
Proof. exact sum_conserved. Qed.
(* non-additive quality: volume-weighted mean, hence between the parts *)
Theorem C10_sum_quality_is_weighted_mean : forall a b k, 0 < vol a + vol b ->
  get (nons (gen_sum_vqip a b)) k ==
  (get (nons a) k * vol a + get (nons b) k * vol b) / (vol a + vol b).
Proof. exact sum_nonadd_mean. Qed.
Theorem C10_sum_quality_between : forall a b k, 0 <= vol a -> 0 <= vol b -> 0 < vol a + vol b ->
  Qmin (get (nons a) k) (get (nons b) k) <= get (nons (gen_sum_vqip a b)) k
    <= Qmax (get (nons a) k) (get (nons b) k).
Proof. exact sum_nonadd_between. Qed.
Theorem C10_sum_commutative : forall a b, 0 < vol a + vol b ->
  gen_sum_vqip a b ≡ gen_sum_vqip b a.
Proof. exact sum_comm. Qed.
Theorem C10_sum_associative : forall a b d,
  0 <= vol a -> 0 <= vol b -> 0 <= vol d -> 0 < vol a + vol b + vol d ->
  gen_sum_vqip (gen_sum_vqip a b) d ≡ gen_sum_vqip a (gen_sum_vqip b d).
Proof. exact sum_assoc. Qed.
Theorem C10_subtracting_what_was_added : forall a b,
  gen_extract_vqip (gen_sum_vqip a b) b ≐ a.
Proof. exact extract_sum_inverse. Qed.
Theorem C10_adding_what_was_subtracted : forall a b,
  gen_sum_vqip (gen_extract_vqip a b) b ≐ a.
Proof. exact sum_extract_inverse. Qed.
Theorem C10_ds_is_difference : forall a b c, conserved c ->
  cmp c (gen_ds_vqip a b) == cmp c a - cmp c b.
Proof. exact ds_is_difference. Qed.
(* rescaling *)
Theorem C10_rescale_volume : forall t v, vol (gen_v_change_vqip t v) == v.
Proof. exact v_change_vol. Qed.
Theorem C10_rescale_keeps_concentration : forall t v k, 0 < vol t -> 0 < v ->
  get (adds (gen_v_change_vqip t v)) k / vol (gen_v_change_vqip t v) == get (adds t) k / vol t.
Proof. exact v_change_keeps_concentration. Qed.
Theorem C10_rescale_keeps_quality : forall t v k,
  get (nons (gen_v_change_vqip t v)) k == get (nons t) k.
Proof. exact v_change_keeps_quality. Qed.
Theorem C10_rescale_split : forall t x, 0 < vol t ->
  gen_sum_vqip (gen_v_change_vqip t x) (gen_v_change_vqip t (vol t - x)) ≐ t.
Proof. exact v_change_split. Qed.
Theorem C10_rescale_part_is_within : forall t v c, conserved c -> 0 < vol t -> 0 <= cmp c t ->
  0 <= v <= vol t -> 0 <= cmp c (gen_v_change_vqip t v) <= cmp c t.
Proof. exact v_change_le. Qed.
Theorem C10_distill_only_volume : forall t v,
  vol (gen_v_distill_vqip t v) == vol t - v /\
  (forall k, get (adds (gen_v_distill_vqip t v)) k == get (adds t) k) /\
  (forall k, get (nons (gen_v_distill_vqip t v)) k == get (nons t) k).
Proof. exact distill_only_volume. Qed.
(* concentration <-> mass is lossless for non-zero volume, undefined at zero *)
Theorem C10_total_conc_total : forall t, ~ vol t == 0 ->
  gen_concentration_to_total (gen_total_to_concentration t) ≡ t.
Proof. exact c2t_t2c_roundtrip. Qed.
Theorem C10_conc_total_conc : forall c, ~ vol c == 0 ->
  gen_total_to_concentration (gen_concentration_to_total c) ≡ c.
Proof. exact t2c_c2t_roundtrip. Qed.
Theorem C10_to_concentration_defined_iff : forall t,
  gen_total_to_concentration_divok t = true <-> ~ vol t == 0.
Proof. exact t2c_defined_iff. Qed.
Theorem C10_blend_is_sum_in_concentration_form : forall c1 c2, 0 < vol c1 + vol c2 ->
  gen_concentration_to_total (gen_blend_vqip c1 c2) ≐
  gen_sum_vqip (gen_concentration_to_total c1) (gen_concentration_to_total c2).
Proof. exact blend_is_sum_in_concentration_form. Qed.
Theorem C10_blend_quality_is_mean : forall c1 c2 k, 0 < vol c1 + vol c2 ->
  get (nons (gen_blend_vqip c1 c2)) k ==
  (get (nons c1) k * vol c1 + get (nons c2) k * vol c2) / (vol c1 + vol c2).
Proof. exact blend_quality_is_mean. Qed.
Theorem C10_ds_c_square : forall c c_,
  gen_ds_vqip_c c c_ ≐ gen_ds_vqip (gen_concentration_to_total c) (gen_concentration_to_total c_).
Proof. exact ds_c_square. Qed.
Theorem C10_extract_c_square : forall c1 c2, 0 < vol c1 - vol c2 ->
  gen_concentration_to_total (gen_extract_vqip_c c1 c2) ≐
  gen_extract_vqip (gen_concentration_to_total c1) (gen_concentration_to_total c2).
Proof. exact extract_c_square. Qed.
Theorem C10_distill_c_square : forall c v, 0 < vol c - v ->
  gen_concentration_to_total (gen_v_distill_vqip_c c v) ≐
  gen_v_distill_vqip (gen_concentration_to_total c) v.
Proof. exact distill_c_square. Qed.
(* no operation modifies its arguments (alias-tracking translation) *)
Theorem C10_pure :
  (forall a b, gen_blend_vqip_after a b = (a, b)) /\
  (forall a b, gen_sum_vqip_after a b = (a, b)) /\
  (forall a, gen_concentration_to_total_after a = a) /\
  (forall a, gen_total_to_concentration_after a = a) /\
  (forall a b, gen_extract_vqip_after a b = (a, b)) /\
  (forall a b, gen_extract_vqip_c_after a b = (a, b)) /\
  (forall a v, gen_v_distill_vqip_after a v = a) /\
  (forall a v, gen_v_distill_vqip_c_after a v = a) /\
  (forall a v, gen_v_change_vqip_after a v = a) /\
  (forall a v, gen_v_change_vqip_c_after a v = a) /\
  (forall a b, gen_ds_vqip_after a b = (a, b)) /\
  (forall a b, gen_ds_vqip_c_after a b = (a, b)).
Proof.
  exact (conj blend_pure (conj sum_pure (conj c2t_pure (conj t2c_pure (conj extract_pure
        (conj extract_c_pure (conj distill_pure (conj distill_c_pure (conj change_pure
        (conj change_c_pure (conj ds_pure ds_c_pure))))))))))).
Qed.
(* the operations the component models are built from are these operations *)
Theorem C10_model_ops_are_the_translated_ones :
  (forall a b, vsum a b ≡ gen_sum_vqip a b) /\ (forall a b, vsub a b ≡ gen_extract_vqip a b) /\
  (forall a b, vds a b ≡ gen_ds_vqip a b) /\ (forall t v, vchange t v ≡ gen_v_change_vqip t v) /\
  (forall t v, vdistill t v ≡ gen_v_distill_vqip t v) /\
  (forall t, vc2t t ≡ gen_concentration_to_total t) /\ (forall t, vt2c t ≡ gen_total_to_concentration t) /\
  (forall a b, vblend a b ≡ gen_blend_vqip a b).
Proof.
  exact (conj bridge_sum (conj bridge_sub (conj bridge_ds (conj bridge_change (conj bridge_distill
        (conj bridge_c2t (conj bridge_t2c bridge_blend))))))).
Qed.
(* non-vacuity: a concrete wet flux pair meets every hypothesis used above *)
Example C10_hypotheses_satisfiable :
  let a := mkV (3#1) [1#2; 2#1] [10#1] in let b := mkV (1#1) [1#4; 0] [20#1] in
  0 <= vol a /\ 0 <= vol b /\ 0 < vol a + vol b /\ ~ vol a == 0 /\
  get (nons (gen_sum_vqip a b)) 0 == 25#2.
Proof. vm_compute. repeat split; intro; discriminate. Qed.

Print Assumptions C10_sum_adds_exactly.
Print Assumptions C10_sum_quality_is_weighted_mean.
Print Assumptions C10_sum_quality_between.
Print Assumptions C10_sum_commutative.
Print Assumptions C10_sum_associative.
Print Assumptions C10_subtracting_what_was_added.
Print Assumptions C10_adding_what_was_subtracted.
Print Assumptions C10_ds_is_difference.
Print Assumptions C10_rescale_volume.
Print Assumptions C10_rescale_keeps_concentration.
Print Assumptions C10_rescale_keeps_quality.
Print Assumptions C10_rescale_split.
Print Assumptions C10_rescale_part_is_within.
Print Assumptions C10_distill_only_volume.
Print Assumptions C10_total_conc_total.
Print Assumptions C10_conc_total_conc.
Print Assumptions C10_to_concentration_defined_iff.
Print Assumptions C10_blend_is_sum_in_concentration_form.
Print Assumptions C10_blend_quality_is_mean.
Print Assumptions C10_ds_c_square.
Print Assumptions C10_extract_c_square.
Print Assumptions C10_distill_c_square.
Print Assumptions C10_pure.
Print Assumptions C10_model_ops_are_the_translated_ones.
