(* Property C15 — overrides.  Statements only (proofs in ParamLaws.v).
   For every component kind of Params.v and EVERY sequence of override dictionaries (any subset of
   keys, any values): the component reached is the one constructed with the merged arguments -
   all parameters and all derived quantities (capacity = area x depth, soil depth x porosity,
   field capacity and wilting point as depths, river area = length x width with unbounded
   capacity, tank mirroring its node, WTW volume constant) -; applying the same override again
   changes nothing; a component that copies the dict-valued parameters it is given is never
   changed by overriding or constructing another component, and the default argument of the
   constructor - hence every component constructed later with default arguments - stays what it
   was declared to be (C15_alias_refuted: storing the object itself, the tree before the repair).
   The tie of the ownership model to the source is coq/gen/GenCtors.v (which constructors copy).
   What the model cannot exhibit (partial): behaviour under request sequences of overridden
   components, classes outside Params.v, handler re-decoration; reached by harness/mon_c15.py. *)
From Coq Require Import QArith List.

From WSI Require Import Params ParamLaws CtorLaws.
From WSI Require Vqip Tank Arc QTank Distrib Kinds TimeArea Leak Wtw OverrideLaws.
From WSI.gen Require Import GenCtors.
Import ListNotations.
Open Scope Q_scope.

Theorem C15_surface_overrides_are_construction : forall a os,
  fold_left surf_ov os (surf_mk a) = surf_mk (fold_left surf_merge os a).
Proof. exact surf_seq. Qed.
Print Assumptions C15_surface_overrides_are_construction.

Theorem C15_impervious_overrides_are_construction : forall a os,
  fold_left imp_ov os (imp_mk a) = imp_mk (fold_left imp_merge os a).
Proof. exact imp_seq. Qed.
Print Assumptions C15_impervious_overrides_are_construction.

Theorem C15_pervious_overrides_are_construction : forall a os, tps_nonzero (ap_tp a) os ->
  perv_run (perv_mk a) os = Some (perv_mk (fold_left perv_merge os a)).
Proof. exact perv_seq. Qed.
Print Assumptions C15_pervious_overrides_are_construction.

Theorem C15_storage_overrides_are_construction : forall a os,
  fold_left store_ov os (store_mk a) = store_mk (fold_left tank_merge os a).
Proof. exact store_seq. Qed.
Print Assumptions C15_storage_overrides_are_construction.

Theorem C15_river_overrides_are_construction : forall U a os,
  fold_left (river_ov U) os (river_mk U a) = river_mk U (fold_left river_merge os a).
Proof. exact river_seq. Qed.
Print Assumptions C15_river_overrides_are_construction.

Theorem C15_wtw_overrides_are_construction : forall a os,
  fold_left wtw_ov os (wtw_mk a) = wtw_mk (fold_left wtw_merge os a).
Proof. exact wtw_seq. Qed.
Print Assumptions C15_wtw_overrides_are_construction.

Theorem C15_tank_arc_overrides_are_construction : forall a o b p,
  tank_ov (tank_mk a) o = tank_mk (tank_merge a o) /\ arc_ov (arc_mk b) p = arc_mk (arc_merge b p).
Proof. exact as_ctor_tank_arc. Qed.
Print Assumptions C15_tank_arc_overrides_are_construction.

Theorem C15_idempotent : forall (t : ptank) ot (r : parc) oa (s : psurf) os (i : pimp) oi (n : pstore) on U (v : priver) ov_ (w : pwtw) ow,
  tank_ov (tank_ov t ot) ot = tank_ov t ot /\ arc_ov (arc_ov r oa) oa = arc_ov r oa /\
  surf_ov (surf_ov s os) os = surf_ov s os /\ imp_ov (imp_ov i oi) oi = imp_ov i oi /\
  store_ov (store_ov n on) on = store_ov n on /\ river_ov U (river_ov U v ov_) ov_ = river_ov U v ov_ /\
  wtw_ov (wtw_ov w ow) ow = wtw_ov w ow.
Proof. exact all_idem. Qed.
Print Assumptions C15_idempotent.

Theorem C15_pervious_idempotent : forall s o s1, perv_ov s o = Some s1 -> ~ v_tp s1 == 0 -> perv_ov s1 o = Some s1.
Proof. exact perv_idem. Qed.
Print Assumptions C15_pervious_idempotent.

Theorem C15_derived_quantities_consistent : forall (a : asurf) os (b : aimp) oi (c : ptank) on U (d : ariver) ov_ (e : awtw) ow,
  surf_ok (fold_left surf_ov os (surf_mk a)) /\ imp_ok (fold_left imp_ov oi (imp_mk b)) /\
  store_ok (fold_left store_ov on (store_mk c)) /\ river_ok U (fold_left (river_ov U) ov_ (river_mk U d)) /\
  wtw_ok (fold_left wtw_ov ow (wtw_mk e)).
Proof. exact all_consistent. Qed.
Print Assumptions C15_derived_quantities_consistent.

Theorem C15_pervious_derived_consistent : forall a os s, tps_nonzero (ap_tp a) os ->
  perv_run (perv_mk a) os = Some s -> perv_ok s.
Proof. exact perv_consistent. Qed.
Print Assumptions C15_pervious_derived_consistent.

Theorem C15_no_cross_talk : forall d ops i u j, let w := wrun false d ops in
  (i < length (insts w))%nat -> (j < length (insts w))%nat -> j <> i ->
  view (wstep false w (WOverride i u)) j = view w j /\ view (wstep false w (WOverride i u)) i = dupdate (view w i) u.
Proof. exact no_cross_talk. Qed.
Print Assumptions C15_no_cross_talk.

Theorem C15_construction_touches_nobody : forall d ops g j, let w := wrun false d ops in
  (j < length (insts w))%nat -> view (wstep false w (WNew g)) j = view w j.
Proof. exact construction_frame. Qed.
Print Assumptions C15_construction_touches_nobody.

Theorem C15_future_defaults_untouched : forall d ops, let w := wrun false d ops in
  view (construct_copy w None) (length (insts w)) = d.
Proof. exact fresh_default. Qed.
Print Assumptions C15_future_defaults_untouched.

Theorem C15_alias_refuted : exists d ops u, let w := wrun true d ops in
  view (wstep true w (WOverride 0 u)) 1 <> view w 1 /\ cell (wstep true w (WOverride 0 u)) 0 <> d.
Proof. exact alias_refuted. Qed.
Print Assumptions C15_alias_refuted.

(* the source tie: in the tree under test every constructor with a mutable default keeps a copy
   (table regenerated from the source on every run), and the anchored classes are in the table *)
Theorem C15_constructors_keep_copies : forall c p b, In (c, p, b) ctor_dicts -> b = true.
Proof. exact ctors_own_forall. Qed.
Print Assumptions C15_constructors_keep_copies.

(* non-vacuity: three components, the second overridden *)
Example C15_world_reachable :
  let w := wrun false [Some 1] [WNew None; WNew (Some [None; Some 2]); WNew None] in
  (1 < length (insts w))%nat /\ (2 < length (insts w))%nat /\ view (wstep false w (WOverride 1 [Some 5])) 1 = [Some 5; Some 2]
  /\ view (wstep false w (WOverride 1 [Some 5])) 2 = [Some 1].
Proof. vm_compute. repeat split; repeat constructor. Qed.

(* node models (coq/TimeArea.v, Leak.v, Wtw.v; tied by the families tarea, leak, wtw, which override nodes that have been
   used and compare every later operation): an override sets exactly what it names and keeps what the node holds, is
   idempotent, the last one wins, derived quantities follow *)
Theorem C15_sewer_override : forall S (n : TimeArea.qnode S) cap pt ta,
  let n' := TimeArea.sw_override S n cap pt ta in
  QTank.s_cap (QTank.qt_s (TimeArea.qn_t S n')) = cap /\ TimeArea.qn_pt S n' = pt /\ TimeArea.qn_ta S n' = ta /\
  QTank.s_sto (QTank.qt_s (TimeArea.qn_t S n')) = QTank.s_sto (QTank.qt_s (TimeArea.qn_t S n)) /\
  QTank.s_act (QTank.qt_s (TimeArea.qn_t S n')) = QTank.s_act (QTank.qt_s (TimeArea.qn_t S n)) /\
  QTank.qt_l (TimeArea.qn_t S n') = QTank.qt_l (TimeArea.qn_t S n) /\
  TimeArea.qn_outs S n' = TimeArea.qn_outs S n /\ TimeArea.qn_ins S n' = TimeArea.qn_ins S n.
Proof. exact OverrideLaws.sw_override_sets. Qed.
Print Assumptions C15_sewer_override.
Theorem C15_node_overrides_idempotent : forall S (n : TimeArea.qnode S) cap pt ta (d : Leak.dnode S) l (w : Wtw.wwtw S) (f : Wtw.fwtw S) p tc,
  TimeArea.sw_override S (TimeArea.sw_override S n cap pt ta) cap pt ta = TimeArea.sw_override S n cap pt ta /\
  Leak.dn_override S (Leak.dn_override S d l) l = Leak.dn_override S d l /\
  Wtw.ww_override S (Wtw.ww_override S w p tc) p tc = Wtw.ww_override S w p tc /\
  Wtw.fw_override S (Wtw.fw_override S f p tc) p tc = Wtw.fw_override S f p tc.
Proof. intros. repeat split. Qed.
Print Assumptions C15_node_overrides_idempotent.
Theorem C15_sewer_pipe_delay_is_not_the_tanks : forall S (n : TimeArea.qnode S) cap pt ta,
  Arc.l_n (QTank.qt_l (TimeArea.qn_t S (TimeArea.sw_override S n cap pt ta))) = Arc.l_n (QTank.qt_l (TimeArea.qn_t S n)).
Proof. exact OverrideLaws.sw_override_keeps_tank_delay. Qed.
Print Assumptions C15_sewer_pipe_delay_is_not_the_tanks.
Theorem C15_leakage_overridden_to_zero_is_the_plain_junction : forall S (n : Leak.dnode S) (P : Arc.port S) maxiter l q,
  Leak.dn_pull_set S P maxiter (Leak.dn_override S (Leak.dn_override S n l) 0) q =
  match Distrib.pull_distributed S P maxiter None (Leak.dn_ins S n) q with
  | None => None
  | Some (ins', got, _) => Some (Leak.mkDN S ins' (Leak.dn_outs S n) 0, got)
  end.
Proof. exact OverrideLaws.dn_override_zero_plain. Qed.
Print Assumptions C15_leakage_overridden_to_zero_is_the_plain_junction.
