(* Property C20 — water quantity does not depend on which pollutants are
   tracked.  Statements only (proofs in Erasure.v): two stores / fluxes / arcs
   that agree in VOLUME (and hydraulic parameters) and differ arbitrarily in
   their pollutant lists, masses and qualities produce the same volumes under
   every store operation and every push/pull over a plain arc between
   volume-determined end nodes (tank-backed ends are).  The whole-model
   statement is checked on the implementation by paired runs (partial). *)
From Coq Require Import QArith Qminmax List Bool Arith.
From WSI Require Import Vqip Pow Tank Arc QTank Run TankLaws ArcLaws Erasure QTankErasure.
From WSI Require Wtw LandV NodeErasure.
Import ListNotations.
Open Scope Q_scope.

Theorem C20_store_push : forall s t v w force, same_tank s t -> same_vol v w ->
  same_tank (fst (t_push s v force)) (fst (t_push t w force)) /\
  same_vol (snd (t_push s v force)) (snd (t_push t w force)).
Proof. exact sv_push. Qed.
Print Assumptions C20_store_push.
Theorem C20_store_pull : forall s t q, same_tank s t ->
  same_tank (fst (t_pull s q)) (fst (t_pull t q)) /\ same_vol (snd (t_pull s q)) (snd (t_pull t q)).
Proof. exact sv_pull. Qed.
Print Assumptions C20_store_pull.
Theorem C20_store_evaporate : forall s t e, same_tank s t ->
  same_tank (fst (t_evaporate s e)) (fst (t_evaporate t e)) /\ snd (t_evaporate s e) == snd (t_evaporate t e).
Proof. exact sv_evaporate. Qed.
Print Assumptions C20_store_evaporate.
Theorem C20_store_ponded : forall s t, same_tank s t ->
  same_tank (fst (t_pull_ponded s)) (fst (t_pull_ponded t)) /\ same_vol (snd (t_pull_ponded s)) (snd (t_pull_ponded t)).
Proof. exact sv_ponded. Qed.
Print Assumptions C20_store_ponded.
Theorem C20_store_checks : forall s t ov, same_tank s t ->
  same_vol (t_get_excess s ov) (t_get_excess t ov) /\ same_vol (t_get_avail s ov) (t_get_avail t ov).
Proof. exact (fun s t ov H => conj (sv_excess s t ov H) (sv_avail s t ov H)). Qed.
Print Assumptions C20_store_checks.
(* decay and close-out never touch a volume, whatever the decay parameters and temperatures *)
Theorem C20_closeout : forall s t T1 T2, same_tank s t -> same_tank (t_end s T1) (t_end t T2).
Proof. exact sv_end. Qed.
Print Assumptions C20_closeout.

Theorem C20_arc_push : forall S S' P P' R, vol_determined S S' P P' R ->
  forall a b s s' v w force, same_arc a b -> R s s' -> same_vol v w ->
  let r1 := a_send_push S P a s v force in let r2 := a_send_push S' P' b s' w force in
  same_arc (fst (fst r1)) (fst (fst r2)) /\ R (snd (fst r1)) (snd (fst r2)) /\ same_vol (snd r1) (snd r2).
Proof. exact sv_arc_push. Qed.
Print Assumptions C20_arc_push.
Theorem C20_arc_pull : forall S S' P P' R, vol_determined S S' P P' R ->
  forall a b s s' q q', same_arc a b -> R s s' -> q == q' ->
  let r1 := a_send_pull S P a s q in let r2 := a_send_pull S' P' b s' q' in
  same_arc (fst (fst r1)) (fst (fst r2)) /\ R (snd (fst r1)) (snd (fst r2)) /\ same_vol (snd r1) (snd r2).
Proof. exact sv_arc_pull. Qed.
Print Assumptions C20_arc_pull.
Example C20_tank_ends_are_volume_determined : vol_determined (nb * nb) (nb * nb) nbport nbport same_ends.
Proof. exact nbport_vol_determined. Qed.
Print Assumptions C20_tank_ends_are_volume_determined.

(* queue tanks (QueueTank / DecayQueueTank, the stores of Sewer and QueueGroundwater): two tanks with the same
   capacity, travel time and volumes - in the declared contents, the arrived part and every bucket of the queue -
   answer every operation sequence with the same volumes, whatever they track and WHETHER OR NOT THEY DECAY: decay
   tables and temperatures are unconstrained (same_op relates QEnd T with QEnd T' for any T, T'), a fresh plain and a
   fresh decaying tank are related.  (False of the model before DecayQueueTank._end_timestep was repaired: the
   decaying close-out did not release the water that had completed its travel time.) *)
Theorem C20_queue_tank_histories : forall ops ops' t u, same_qt t u -> Forall2 same_op ops ops' ->
  Forall2 same_vol (qrun t ops) (qrun u ops').
Proof. exact sq_run. Qed.
Print Assumptions C20_queue_tank_histories.
Theorem C20_queue_tank_step : forall t u o o', same_qt t u -> same_op o o' ->
  same_qt (fst (qtank_do t o)) (fst (qtank_do u o')) /\ same_vol (snd (qtank_do t o)) (snd (qtank_do u o')).
Proof. exact sq_do. Qed.
Print Assumptions C20_queue_tank_step.
Example C20_plain_and_decaying_queue_tanks_start_alike : forall cap v w n d d', same_vol v w ->
  same_qt (qt_init cap v n d) (qt_init cap w n d').
Proof. exact sq_init. Qed.
Print Assumptions C20_plain_and_decaying_queue_tanks_start_alike.

(* node functions (coq/Wtw.v, coq/LandV.v; tied by families wtw and land): the volumes of effluent, liquor and solids of
   the treatment step depend on the influent volume and the hydraulic shares only - process parameters, pollutant
   multipliers, qualities and the temperature are unconstrained; the six volumes IHACRES produces on a pervious surface
   (soil store, infiltration excess, subsurface flow, percolation, rain, evaporation) depend on the soil store's
   capacity and volume, the weather and the soil parameters only *)
Theorem C20_treatment_volumes : forall p q influent influent' treated treated' liquor liquor',
  Wtw.w_ps p == Wtw.w_ps q -> Wtw.w_lmvol p == Wtw.w_lmvol q -> same_vol influent influent' -> same_vol treated treated' ->
  let r := Wtw.w_treat p influent treated liquor in let r' := Wtw.w_treat q influent' treated' liquor' in
  same_vol (fst (fst r)) (fst (fst r')) /\ same_vol (snd (fst r)) (snd (fst r')) /\ same_vol (snd r) (snd r').
Proof. exact NodeErasure.sv_treat. Qed.
Print Assumptions C20_treatment_volumes.
Theorem C20_ihacres_volumes : forall p area t u rain et0 T T' tn tn', NodeErasure.lsame t u ->
  let '(t1, ex, ssf, pc, pr, ev) := LandV.ihacres p area t rain et0 T tn in
  let '(u1, ex', ssf', pc', pr', ev') := LandV.ihacres p area u rain et0 T' tn' in
  NodeErasure.lsame t1 u1 /\ vol ex = vol ex' /\ vol ssf = vol ssf' /\ vol pc = vol pc' /\ pr = pr' /\ ev = ev'.
Proof. exact NodeErasure.lv_ihacres. Qed.
Print Assumptions C20_ihacres_volumes.
