(* Property C03 — whole-system ledger.  Statements only.  The part the per-object
   accounts cannot see is close-out: proved here for every store and arc model —
   close-out changes the physical contents only by the decay it applies, records
   exactly that, and leaves the lagged copy equal to the contents before decay, so
   that what the next timestep reports as change is what the stores physically
   changed.  Summation over a whole model is checked on the implementation by the
   stock monitor (object-graph walk, exact arithmetic) — partial. *)
From Coq Require Import QArith Qminmax List Bool Arith.
From WSI Require Import Vqip Pow Tank Arc QTank Run TankLaws ArcLaws QTankLaws QueueLaws.
From WSI Require Net NetLaws.
From WSI Require Import Distrib Kinds TimeArea DecayQTank TimeAreaLaws.
Import ListNotations.
Open Scope Q_scope.

Theorem C03_tank_closeout : forall t T c, conserved c ->
  cmp c (t_sto (t_end t T)) + (match t_dec t with [] => 0 | _ => cmp c (t_decayed (t_end t T)) end)
    == cmp c (t_sto t) /\
  t_sto_ (t_end t T) = t_sto t.
Proof. exact t_end_closeout. Qed.
Print Assumptions C03_tank_closeout.
Theorem C03_tank_reported_change_is_physical_change_plus_decay : forall t c, conserved c ->
  cmp c (t_ds t) == cmp c (t_sto t) - cmp c (t_sto_ t)
                    + (match t_dec t with [] => 0 | _ => cmp c (t_decayed t) end).
Proof. exact t_ds_reports. Qed.
Print Assumptions C03_tank_reported_change_is_physical_change_plus_decay.
Theorem C03_queue_tank_closeout : forall t T, qt_ok t ->
  let t' := qt_end (qt_set_T t T) in
  qt_ok t' /\
  (forall c, conserved c -> cmp c (act t') == cmp c (act t) + cmp c (bucket t 1)) /\
  (forall c k, conserved c -> cmp c (bucket t' (S k)) == cmp c (bucket t (S (S k)))) /\
  (forall c, conserved c -> cmp c (sto t') == cmp c (sto t)) /\
  s_sto_ (qt_s t') = sto t /\ cap t' = cap t /\ delay t' = delay t.
Proof. exact qt_end_spec. Qed.
Print Assumptions C03_queue_tank_closeout.
Theorem C03_queue_arc_closeout : forall q c, conserved c ->
  (q_dec q = [] -> cmp c (q_decayed q) == 0) ->
  bal c (q_end q) == - qsumc c (q_queue q).
Proof. exact q_end_ledger. Qed.
Print Assumptions C03_queue_arc_closeout.
Theorem C03_decay_partition : forall d T v c, conserved c ->
  cmp c (fst (vdecay d T v)) + cmp c (snd (vdecay d T v)) == cmp c v.
Proof. exact vdecay_conserved. Qed.
Print Assumptions C03_decay_partition.

(* ---- the composition: whole networks (coq/Net.v, NetLaws.v), water ----
   Over any sequence of orchestration calls on any well-formed network the summed balance of any
   set of interior nodes is kept: the water the stores of the system gained is what crossed its
   boundary arcs (from catchments, to outlets) - nothing appears or vanishes inside, whatever the
   topology, re-entrant request chains included. *)
Theorem C03_network_system_ledger : forall maxiter fuel os s s' ks,
  NetLaws.wf s -> NetLaws.orch_all maxiter fuel s os = Some s' ->
  (forall k, In k ks -> NetLaws.interior s k /\ forall m, In (Net.ORoute m) os -> k <> m) ->
  NetLaws.qsum (map (NetLaws.balance s') ks) == NetLaws.qsum (map (NetLaws.balance s) ks).
Proof. exact NetLaws.system_ledger. Qed.
Print Assumptions C03_network_system_ledger.

(* an abstraction from a time-area groundwater store (QueueGroundwater.pull_set_active reaches into the queue tank: it
   takes the same share of every bucket of the queue and of what has arrived): what it hands out is exactly what the
   declared contents drop by, and the tank still declares what it holds plus the decay still to be booked - for volume
   and every additive pollutant, plain or decaying tank, any request *)
Theorem C03_abstraction_from_a_time_area_store_keeps_its_books : forall S (n : qnode S) q, qledger (qn_t S n) ->
  qledger (qn_t S (fst (qg_pull_set S n q))) /\
  (forall c, conserved c ->
     cmp c (snd (qg_pull_set S n q)) == cmp c (s_sto (qt_s (qn_t S n))) - cmp c (s_sto (qt_s (qn_t S (fst (qg_pull_set S n q)))))) /\
  l_decayed (qt_l (qn_t S (fst (qg_pull_set S n q)))) = l_decayed (qt_l (qn_t S n)).
Proof. exact qg_pull_ledger. Qed.
Print Assumptions C03_abstraction_from_a_time_area_store_keeps_its_books.
