(* Property C07 — checks are honest: what a check offers, the following request
   delivers.  Statements only (proofs in KindLaws.v), for every store level and
   arc state (hence every state reachable by earlier requests), all requested
   amounts.  Other node classes are covered by the implementation monitor
   (check -> request probes on whole models) — partial. *)
From Coq Require Import QArith Qminmax List Bool Arith.
From WSI Require Import Vqip Pow Tank Arc QTank Distrib Kinds Run TankLaws ArcLaws QueueLaws DistribLaws KindLaws.
From WSI Require Net NetLaws.
Import ListNotations.
Open Scope Q_scope.

(* stores (Storage, Reservoir, Groundwater and every tank-backed handler): pull and push *)
Theorem C07_store_pull_check_is_honest : forall t y, 0 <= y -> 0 <= vol (t_sto t) ->
  vol (snd (t_pull t y)) == Qmin y (vol (t_get_avail t None)).
Proof. exact store_pull_honest. Qed.
Print Assumptions C07_store_pull_check_is_honest.
Theorem C07_store_push_check_is_honest : forall t v,
  vol (snd (t_push t v false)) == Qmax (vol v - vol (t_get_excess t None)) 0.
Proof. exact store_push_honest. Qed.
Print Assumptions C07_store_push_check_is_honest.

(* through a plain arc (its capacity and what it already admitted included) *)
Theorem C07_arc_pull_check_is_honest : forall (a : arc) (ti : tank) (o : nb) y,
  0 <= y -> 0 <= vol (t_sto ti) -> a_fin a <= a_cap a ->
  let X := vol (a_excess_pull _ nbport a (NT ti, o) None) in
  vol (snd (a_send_pull _ nbport a (NT ti, o) y)) == Qmin y X.
Proof. exact arc_pull_honest. Qed.
Print Assumptions C07_arc_pull_check_is_honest.
Theorem C07_arc_push_check_is_honest : forall (a : arc) (i : nb) (to : tank) v, wet v -> a_fin a <= a_cap a ->
  let X := vol (a_excess_push _ nbport a (i, NT to) None) in
  vol (snd (a_send_push _ nbport a (i, NT to) v false)) == Qmax (vol v - X) 0.
Proof. exact arc_push_honest. Qed.
Print Assumptions C07_arc_push_check_is_honest.

(* a river (minimum required flow subtracted) without upstream neighbours *)
Theorem C07_river_pull_check_is_honest : forall S P (K : contract S P) maxiter k q k' r,
  kind_ok S P K k -> 0 <= q -> 0 <= allowance S k -> k_ins S k = [] ->
  rv_pull_set S P maxiter k q = Some (k', r) ->
  vol r == Qmin q (vol (rv_pull_check S P k None)) /\
  vol (stock S k') == vol (stock S k) - vol r /\
  (allowance S k <= vol (stock S k) -> allowance S k <= vol (stock S k')).
Proof. exact river_alone_honest_and_safe. Qed.
Print Assumptions C07_river_pull_check_is_honest.

(* ---- whole networks (coq/Net.v, NetLaws.v): a check changes nothing ----
   however deep it recurses through junctions, rivers and arcs *)
Theorem C07_network_checks_are_pure : forall maxiter fuel s r s' rep, NetLaws.wf s -> NetLaws.is_check r = true ->
  Net.exec maxiter fuel s r = Some (s', rep) -> s' = s.
Proof. exact NetLaws.checks_pure. Qed.
Print Assumptions C07_network_checks_are_pure.
