(* Property C07 — checks are honest: what a check offers, the following request
   delivers.  Statements only (proofs in KindLaws.v), for every store level and
   arc state (hence every state reachable by earlier requests), all requested
   amounts.  Other node classes are covered by the implementation monitor
   (check -> request probes on whole models) — partial. *)
From Coq Require Import QArith Qminmax List Bool Arith.
From WSI Require Import Vqip Pow Tank Arc QTank Distrib Kinds Run TankLaws ArcLaws QueueLaws DistribLaws KindLaws.
From WSI Require Net NetLaws.
From WSI Require Kinds Leak LeakLaws Refuted Wtw WtwLaws.
Import ListNotations.
Open Scope Q_scope.

(* stores (Storage, Reservoir, Groundwater and every tank-backed handler): pull and push *)
Theorem C07_store_pull_check_is_honest : forall t y, 0 <= y -> 0 <= vol (t_sto t) ->
  vol (snd (t_pull t y)) == Qmin y (vol (t_get_avail t None)).
Proof. exact store_pull_honest. Qed.
Print Assumptions C07_store_pull_check_is_honest.
Theorem C07_store_push_check_is_honest : forall t v,
  vol (snd (t_push t v false)) == Qmax (vol v - vol (t_get_excess t None)) 0.
Proof. exact store_push_honest. Qed.
Print Assumptions C07_store_push_check_is_honest.

(* through a plain arc (its capacity and what it already admitted included) *)
Theorem C07_arc_pull_check_is_honest : forall (a : arc) (ti : tank) (o : nb) y,
  0 <= y -> 0 <= vol (t_sto ti) -> a_fin a <= a_cap a ->
  let X := vol (a_excess_pull _ nbport a (NT ti, o) None) in
  vol (snd (a_send_pull _ nbport a (NT ti, o) y)) == Qmin y X.
Proof. exact arc_pull_honest. Qed.
Print Assumptions C07_arc_pull_check_is_honest.
Theorem C07_arc_push_check_is_honest : forall (a : arc) (i : nb) (to : tank) v, wet v -> a_fin a <= a_cap a ->
  let X := vol (a_excess_push _ nbport a (i, NT to) None) in
  vol (snd (a_send_push _ nbport a (i, NT to) v false)) == Qmax (vol v - X) 0.
Proof. exact arc_push_honest. Qed.
Print Assumptions C07_arc_push_check_is_honest.

(* a river (minimum required flow subtracted) without upstream neighbours *)
Theorem C07_river_pull_check_is_honest : forall S P (K : contract S P) maxiter k q k' r,
  kind_ok S P K k -> 0 <= q -> 0 <= allowance S k -> k_ins S k = [] ->
  rv_pull_set S P maxiter k q = Some (k', r) ->
  vol r == Qmin q (vol (rv_pull_check S P k None)) /\
  vol (stock S k') == vol (stock S k) - vol r /\
  (allowance S k <= vol (stock S k) -> allowance S k <= vol (stock S k')).
Proof. exact river_alone_honest_and_safe. Qed.
Print Assumptions C07_river_pull_check_is_honest.

(* ---- whole networks (coq/Net.v, NetLaws.v): a check changes nothing ----
   however deep it recurses through junctions, rivers and arcs *)
Theorem C07_network_checks_are_pure : forall maxiter fuel s r s' rep, NetLaws.wf s -> NetLaws.is_check r = true ->
  Net.exec maxiter fuel s r = Some (s', rep) -> s' = s.
Proof. exact NetLaws.checks_pure. Qed.
Print Assumptions C07_network_checks_are_pure.

(* a Distribution with leakage (coq/Leak.v, tied by family leak): a pull addressed to it hands the consumer at most what
   was asked whenever the leaked share is placed; otherwise exactly the unplaced leak comes on top - the recorded open
   finding, with its witness in the model (Refuted.v) replayed on the implementation on every run *)
Theorem C07_distribution_pull_within_request_when_the_leak_is_placed :
  forall S (P : port S) (K : contract S P) maxiter (n n' : Leak.dnode S) q r,
  star_ok S P K (Leak.dn_ins S n) -> 0 <= q -> 0 <= Leak.dn_leak S n < 1 ->
  Leak.dn_pull_set S P maxiter n q = Some (n', r) ->
  vol r <= q \/ exists unplaced, eps < vol unplaced /\ q < vol r <= q + vol unplaced.
Proof. exact LeakLaws.dn_pull_within_request_when_placed. Qed.
Print Assumptions C07_distribution_pull_within_request_when_the_leak_is_placed.
Example C07_refuted_leak_bounced_to_consumer :
  match Leak.dn_pull_set _ nbport 5 Refuted.w_leak_node (9#1) with Some (_, r) => vol r == 19#2 | None => False end.
Proof. exact Refuted.C18_refuted_leak_bounced_to_consumer. Qed.
Print Assumptions C07_refuted_leak_bounced_to_consumer.

(* the sewer push check of a WWTW (coq/Wtw.v, tied by family wtw) is honest in every state: the room it reports is the
   throughput still free plus the room in the stormwater tank, and any push up to that room is taken in full *)
Theorem C07_wwtw_push_check_is_honest : forall S (w : Wtw.wwtw S) v, 0 <= vol v -> vol v <= WtwLaws.ww_room S w ->
  vol (snd (Wtw.ww_push_set S w v)) == 0 /\
  vol (Wtw.ww_push_check S w (Some v)) == Qmin (WtwLaws.ww_room S w) (vol v).
Proof. exact WtwLaws.ww_check_is_honest. Qed.
Print Assumptions C07_wwtw_push_check_is_honest.
