(* Property C18 — distribution among neighbours never over-delivers nor falls
   short silently.  Statements only; proofs in DistribLaws.v, about the
   executable model Distrib.v that the correspondence check runs against
   Node.push_distributed / pull_distributed / get_connected
   (wsimod/nodes/nodes.py).  For ANY fan-out, capacities, preferences >= 0,
   type filter, iteration limit, and any far ends that meet the reply contract
   and answer wet offers with wet remainders (tank-backed ends do). *)
From Coq Require Import QArith Qminmax List Bool Arith.
From WSI Require Import Vqip Pow Tank Arc QTank Distrib Run TankLaws ArcLaws QueueLaws DistribLaws.
From WSI Require Kinds Leak LeakLaws Refuted.
Import ListNotations.
Open Scope Q_scope.

Definition wet_answers S (P : port S) (K : contract S P) : Prop :=
  forall s v, okS S P K s -> wet v ->
  forall k, vol (snd (p_push_set P s v)) <= 0 -> get (adds (snd (p_push_set P s v))) k == 0.

(* push: never more than asked (0 <= not pushed <= offer), the pieces recorded on the arcs add up
   to offer - not pushed, arcs filtered out by neighbour type are untouched, every arc stays
   within capacity and every end keeps its invariant (star_ok), and without the iteration-limit
   message either the offer is placed (within FLOAT_ACCURACY) or nothing more is feasible *)
Theorem C18_push_distributed : forall S P (K : contract S P), wet_answers S P K ->
  forall maxiter ot st v st' np msg, star_ok S P K st -> wet v ->
  push_distributed S P maxiter ot st v = Some (st', np, msg) ->
  star_ok S P K st' /\ length st' = length st /\
  (forall k, conserved k -> 0 <= cmp k np <= cmp k v) /\
  (forall k, conserved k -> sumvin S k st' == sumvin S k st + (cmp k v - cmp k np)) /\
  Forall2 (frame S ot) st st' /\
  (msg = false -> length st <> 1%nat ->
     vol np <= eps \/ exists c0, feasible_exhausted S P true ot c0 st st').
Proof. exact push_distributed_spec. Qed.
Print Assumptions C18_push_distributed.

(* pull: never more than asked, pieces add up to what is reported, filter respected, shortfall announced *)
Theorem C18_pull_distributed : forall S P (K : contract S P),
  forall maxiter ot st want st' got msg, star_ok S P K st -> 0 <= want ->
  pull_distributed S P maxiter ot st want = Some (st', got, msg) ->
  star_ok S P K st' /\ nonneg got /\ vol got <= want /\
  (forall k, conserved k -> sumvin S k st' == sumvin S k st + cmp k got) /\
  Forall2 (pframe S ot) st st' /\
  (msg = false -> length st <> 1%nat ->
     want - vol got <= eps \/ exists c0, feasible_exhausted S P false ot c0 st st').
Proof. exact pull_distributed_spec. Qed.
Print Assumptions C18_pull_distributed.

(* one redistribution round: what is offered to the arcs is cut from what is left, never more than
   the shares, which never exceed amount * (sum of allocations) / priority *)
Theorem C18_round_never_over_delivers : forall S P (K : contract S P), wet_answers S P K ->
  forall ot amount prio, 0 <= amount -> 0 < prio ->
  forall st al np, star_ok S P K st -> wet np -> Forall (fun w => 0 <= w) al ->
  shares S ot st al amount prio <= vol np ->
  let st' := fst (push_round S P ot st al amount prio np) in
  let np' := snd (push_round S P ot st al amount prio np) in
  star_ok S P K st' /\ wet np' /\ length st' = length st /\
  (forall c, conserved c -> 0 <= cmp c np' <= cmp c np) /\
  (forall c, conserved c -> sumvin S c st' == sumvin S c st + (cmp c np - cmp c np')) /\
  vol np - shares S ot st al amount prio <= vol np' /\
  Forall2 (frame S ot) st st'.
Proof. exact push_round_spec. Qed.
Print Assumptions C18_round_never_over_delivers.
Theorem C18_shares_are_proportional_and_bounded : forall S ot amount prio, 0 <= amount -> 0 < prio -> forall st al,
  Forall (fun w => 0 <= w) al -> shares S ot st al amount prio <= amount * sumq al / prio.
Proof. exact shares_le. Qed.
Print Assumptions C18_shares_are_proportional_and_bounded.

(* the hypotheses are inhabited: tank-backed ends meet the contract and answer wet *)
Example C18_tanks_meet_the_hypotheses : wet_answers (nb * nb) nbport tank_contract.
Proof. exact tank_wet_replies. Qed.
Print Assumptions C18_tanks_meet_the_hypotheses.

(* a Distribution with leakage (coq/Leak.v, tied by family leak): a pull addressed to it hands the consumer at most what
   was asked whenever the leaked share is placed; otherwise exactly the unplaced leak comes on top - the recorded open
   finding, with its witness in the model (Refuted.v) replayed on the implementation on every run *)
Theorem C18_distribution_pull_within_request_when_the_leak_is_placed :
  forall S (P : port S) (K : contract S P) maxiter (n n' : Leak.dnode S) q r,
  star_ok S P K (Leak.dn_ins S n) -> 0 <= q -> 0 <= Leak.dn_leak S n < 1 ->
  Leak.dn_pull_set S P maxiter n q = Some (n', r) ->
  vol r <= q \/ exists unplaced, eps < vol unplaced /\ q < vol r <= q + vol unplaced.
Proof. exact LeakLaws.dn_pull_within_request_when_placed. Qed.
Print Assumptions C18_distribution_pull_within_request_when_the_leak_is_placed.
Example C18_refuted_leak_bounced_to_consumer :
  match Leak.dn_pull_set _ nbport 5 Refuted.w_leak_node (9#1) with Some (_, r) => vol r == 19#2 | None => False end.
Proof. exact Refuted.C18_refuted_leak_bounced_to_consumer. Qed.
Print Assumptions C18_refuted_leak_bounced_to_consumer.
