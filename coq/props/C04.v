(* Property C04 — a transfer moves exactly what it reports: sender loss =
   record = receiver gain.  Statements only; proofs in ArcLaws.v / QueueLaws.v.
   The plain-arc theorems hold for EVERY pair of end nodes meeting the reply
   contract (`contract`; tank-backed ends meet it: C04_contract_is_met_by_tanks);
   sto_out / sto_in are what the receiving / supplying end holds. *)
From Coq Require Import QArith Qminmax List Bool Arith.
From WSI Require Import Vqip Pow Tank Arc QTank Run TankLaws ArcLaws QTankLaws QueueLaws Refuted.
From WSI Require Net NetLaws.
From WSI Require Import Distrib Kinds TimeArea DistribLaws DecayQTank SewerLaws.
Import ListNotations.
Open Scope Q_scope.

Theorem C04_push_over_a_plain_arc : forall S P (K : contract S P) a s v,
  okS S P K s -> wet v -> arc_ok a ->
  let a' := fst (fst (a_send_push S P a s v false)) in
  let s' := snd (fst (a_send_push S P a s v false)) in
  let r := snd (a_send_push S P a s v false) in
  okS S P K s' /\ arc_ok a' /\
  (forall c, conserved c -> 0 <= cmp c r <= cmp c v) /\
  (forall c, conserved c -> cmp c (a_vin a') == cmp c (a_vin a) + (cmp c v - cmp c r)) /\
  (forall c, conserved c -> cmp c (sto_out S P K s') == cmp c (sto_out S P K s) + (cmp c v - cmp c r)) /\
  (forall c, conserved c -> cmp c (sto_in S P K s') == cmp c (sto_in S P K s)) /\
  a_fin a' == a_fin a + (vol v - vol r) /\ a_cap a' = a_cap a.
Proof. exact a_push_spec. Qed.
Print Assumptions C04_push_over_a_plain_arc.

Theorem C04_pull_over_a_plain_arc : forall S P (K : contract S P) a s q,
  okS S P K s -> 0 <= q -> arc_ok a ->
  let a' := fst (fst (a_send_pull S P a s q)) in
  let s' := snd (fst (a_send_pull S P a s q)) in
  let r := snd (a_send_pull S P a s q) in
  okS S P K s' /\ arc_ok a' /\ nonneg r /\ vol r <= q /\
  (forall c, conserved c -> cmp c (a_vin a') == cmp c (a_vin a) + cmp c r) /\
  (forall c, conserved c -> cmp c (sto_in S P K s') == cmp c (sto_in S P K s) - cmp c r) /\
  (forall c, conserved c -> cmp c (sto_out S P K s') == cmp c (sto_out S P K s)) /\
  a_fin a' == a_fin a + vol r /\ a_cap a' = a_cap a.
Proof. exact a_pull_spec. Qed.
Print Assumptions C04_pull_over_a_plain_arc.

(* store level: entered + remainder = offer, remainder has the offer's composition *)
Theorem C04_store_entered_plus_remainder_is_offer : forall t v c, conserved c -> wet v ->
  cmp c (t_sto (fst (t_push t v false))) + cmp c (snd (t_push t v false)) == cmp c (t_sto t) + cmp c v.
Proof. exact t_push_conserves. Qed.
Print Assumptions C04_store_entered_plus_remainder_is_offer.
Theorem C04_store_remainder_has_offer_composition : forall t v c,
  cmp c (snd (t_push t v false)) ==
  cmp c (vchange v (Qmax (vol v - Qmax (t_cap t - vol (t_sto t)) 0) 0)).
Proof. exact t_push_reply_cmp. Qed.
Print Assumptions C04_store_remainder_has_offer_composition.

(* travel-time arcs: the same once earlier water now due (delivered or bounced) is counted *)
Theorem C04_queue_push_counts_due_water : forall S P q s v force time c, conserved c ->
  let q' := fst (fst (q_send_push S P q s v force time)) in
  bal c q' == bal c q + qsumc c (push_dropped S P q s v force time).
Proof. exact q_push_ledger. Qed.
Print Assumptions C04_queue_push_counts_due_water.
Theorem C04_queue_pull_reply_is_what_left : forall S P q s v time c, conserved c ->
  let q' := fst (fst (q_send_pull S P q s v time)) in
  let r := snd (q_send_pull S P q s v time) in
  bal c q' == bal c q + qsumc c (pull_dropped S P q s v time) /\
  cmp c (a_vout (q_a q')) == cmp c (a_vout (q_a q)) + cmp c r.
Proof. exact q_pull_ledger. Qed.
Print Assumptions C04_queue_pull_reply_is_what_left.

Example C04_contract_is_met_by_tanks : contract (nb * nb) nbport.
Proof. exact tank_contract. Qed.
Print Assumptions C04_contract_is_met_by_tanks.

(* a push below FLOAT_ACCURACY is handed back whole: nothing recorded, nothing lost *)
Example C04_tiny_push_handed_back :
  let q := q_init (10#1) 1 [] in let s := (w_idle, w_rejecting) in
  q_send_push _ nbport q s w_tiny false 0 = (q, s, w_tiny).
Proof. exact tiny_push_is_handed_back. Qed.
Print Assumptions C04_tiny_push_handed_back.

(* ---- the composition: whole networks (coq/Net.v, NetLaws.v), water ----
   Any request that returns, at any recursion depth of the re-entrant protocol, changed the balance
   of exactly one interior node - the one it was made at (the source of a push over an arc, the
   destination of a pull) - and by exactly the volume its reply reports (offer minus returned
   remainder, resp. the amount handed over); every other node of the network is where it was. *)
Theorem C04_network_request_moves_what_it_reports : forall maxiter fuel s r s' rep,
  Net.exec maxiter fuel s r = Some (s', rep) -> NetLaws.wf s ->
  NetLaws.shape s' = NetLaws.shape s /\ (NetLaws.is_check r = true -> s' = s) /\
  forall n, NetLaws.interior s n -> NetLaws.balance s' n == NetLaws.balance s n + NetLaws.effect s r rep n.
Proof. exact NetLaws.ledger_exec. Qed.
Print Assumptions C04_network_request_moves_what_it_reports.

(* ---- a node class with a queue tank: the Sewer (coq/TimeArea.v) ----
   Sewer.make_discharge (release what is due, push what has arrived to every neighbour, take out of the tank what was
   not handed back, flood what stands above the capacity to Land and take back what Land refuses) against ANY
   neighbours meeting the reply contract: what the sewer's tank declares less afterwards is exactly what its out-arcs
   record as carried more, for volume and every additive pollutant - up to `dust`, the water above capacity that is
   taken out and dropped when it is no more than FLOAT_ACCURACY (non-negative, at most eps, zero when the sewer floods) -
   and the tank still declares what it holds. *)
Theorem C04_sewer_discharge_moves_what_its_arcs_record : forall S (P : port S) (K : contract S P),
  (forall s v, okS S P K s -> wet v -> forall k, vol (snd (p_push_set P s v)) <= 0 -> get (adds (snd (p_push_set P s v))) k == 0) ->
  forall maxiter (n n' : qnode S),
  star_ok S P K (qn_outs S n) -> qledger (qn_t S n) ->
  wet (vsum (s_act (qt_s (qn_t S n))) (bget (l_b (qt_l (qn_t S n))) 0)) ->
  sw_make_discharge S P maxiter n = Some n' ->
  star_ok S P K (qn_outs S n') /\ qledger (qn_t S n') /\
  exists dust, 0 <= vol dust <= eps /\ (forall c, conserved c -> 0 <= cmp c dust) /\
    forall c, conserved c ->
      cmp c (s_sto (qt_s (qn_t S n))) - cmp c (s_sto (qt_s (qn_t S n'))) ==
      (sumvin S c (qn_outs S n') - sumvin S c (qn_outs S n)) + cmp c dust.
Proof. exact sw_discharge_books. Qed.
Print Assumptions C04_sewer_discharge_moves_what_its_arcs_record.
(* QueueGroundwater.distribute (after its repair: the remainder is subtracted componentwise): the same books, exactly *)
Theorem C04_queue_groundwater_distribute_moves_what_its_arcs_record : forall S (P : port S) (K : contract S P),
  (forall s v, okS S P K s -> wet v -> forall k, vol (snd (p_push_set P s v)) <= 0 -> get (adds (snd (p_push_set P s v))) k == 0) ->
  forall maxiter (n n' : qnode S),
  star_ok S P K (qn_outs S n) -> qledger (qn_t S n) ->
  wet (vsum (s_act (qt_s (qn_t S n))) (bget (l_b (qt_l (qn_t S n))) 0)) ->
  qg_distribute S P maxiter n = Some n' ->
  star_ok S P K (qn_outs S n') /\ qledger (qn_t S n') /\
  forall c, conserved c ->
    cmp c (s_sto (qt_s (qn_t S n))) - cmp c (s_sto (qt_s (qn_t S n'))) == sumvin S c (qn_outs S n') - sumvin S c (qn_outs S n).
Proof. exact qg_distribute_books. Qed.
Print Assumptions C04_queue_groundwater_distribute_moves_what_its_arcs_record.
Example C04_tank_backed_neighbours_meet_the_hypothesis :
  forall s v, okS _ _ tank_contract s -> wet v -> forall k,
    vol (snd (p_push_set nbport s v)) <= 0 -> get (adds (snd (p_push_set nbport s v))) k == 0.
Proof. exact tank_wet_replies. Qed.
Print Assumptions C04_tank_backed_neighbours_meet_the_hypothesis.
