(* QTank.v — executable model of QueueTank / DecayQueueTank (tanks.py): a tank
   whose pushes travel through an internal AltQueueArc / DecayArcAlt whose two
   ends are the tank itself. *)
From Coq Require Import QArith Qminmax List Bool Arith.
From WSI Require Import Vqip Pow Tank Arc.
Import ListNotations.
Open Scope Q_scope.

Record qts := mkQS { s_cap : Q; s_sto : vqip; s_sto_ : vqip; s_act : vqip }.
Definition qts_excess (s : qts) : vqip := vchange (s_sto s) (Qmax (s_cap s - vol (s_sto s)) 0).
(* QueueTank.push_check / push_set: the internal arc's out port *)
Definition qt_port : port qts :=
  mkPort qts
    (fun s ov => let e := qts_excess s in
                 match ov with
                 | Some v => mkV (Qred (Qmin (vol v) (vol e))) (adds e) (nons e)
                 | None => e
                 end)
    (fun s v => (mkQS (s_cap s) (s_sto s) (s_sto_ s) (vsum (s_act s) v), vzero))
    (fun s _ => vzero)
    (fun s _ => (s, vzero)).

Record qtank := mkQT { qt_s : qts; qt_l : altarc }.
Definition qt_init (cap : Q) (init : vqip) (n : nat) (dec : list (Q * Q)) : qtank :=
  mkQT (mkQS cap init init init) (l_init (1000000000000000#1) n dec).

Definition qt_push (t : qtank) (v : vqip) (time : nat) (force : bool) : qtank * vqip :=
  let s := qt_s t in
  if force then
    (mkQT (mkQS (s_cap s) (vsum (s_sto s) v) (s_sto_ s) (vsum (s_act s) v)) (qt_l t), vzero)
  else
    let '(l', s', reply) := l_send_push qts qt_port (qt_l t) s v false time in
    (mkQT (mkQS (s_cap s') (vsum (s_sto s') (vchange v (vol v - vol reply))) (s_sto_ s') (s_act s')) l', reply).
Definition qt_pull (t : qtank) (v : Q) : qtank * vqip :=
  let s := qt_s t in
  let reply := vchange (s_act s) (Qmin v (vol (s_act s))) in
  (mkQT (mkQS (s_cap s) (vsub (s_sto s) reply) (s_sto_ s) (vsub (s_act s) reply)) (qt_l t), reply).
Definition qt_pull_exact (t : qtank) (v : vqip) : qtank * vqip :=
  let s := qt_s t in
  let reply := vnorm (mkV (Qmin (vol v) (vol (s_act s))) (vmap2 Qmin (adds v) (adds (s_act s))) (nons v)) in
  (mkQT (mkQS (s_cap s) (vsub (s_sto s) reply) (s_sto_ s) (vsub (s_act s) reply)) (qt_l t), reply).
Definition qt_push_check (t : qtank) (ov : option vqip) : vqip := p_push_check qts qt_port (qt_s t) ov.
Definition qt_get_avail (t : qtank) : vqip := s_act (qt_s t).
Definition qt_set_T (t : qtank) (T : Q) : qtank := mkQT (qt_s t) (l_set_T (qt_l t) T).
Definition qt_end (t : qtank) : qtank :=
  match l_dec (qt_l t) with
  | [] =>
      let l1 := l_end (qt_l t) in
      let '(l2, s', _) := l_update qts qt_port l1 (qt_s t) in
      mkQT (mkQS (s_cap s') (s_sto s') (s_sto s') (s_act s')) l2
  | _ =>
      (* the decay reported for the timestep comes off the declared contents, the queue moves on (and decays for the
         timestep to come), and what has completed its travel time is released, as in the plain tank *)
      let s := qt_s t in
      let sto := vsub (s_sto s) (l_decayed (qt_l t)) in
      let '(l2, s', _) := l_update qts qt_port (l_end (qt_l t)) (mkQS (s_cap s) sto sto (s_act s)) in
      mkQT s' l2
  end.
(* QueueTank.reinit: the internal arc closes its timestep and forgets its queue (AltQueueArc.reinit; a decaying one also
   forgets the decay it was about to report), the declared contents and what has arrived are emptied *)
Definition l_reinit (l : altarc) : altarc :=
  let l1 := l_end l in
  mkAlt (l_a l1) (l_n l1) [vzero; vzero] (l_qs l1) (l_qs_ l1) (l_dec l1) vzero (l_T l1).
Definition qt_reinit (t : qtank) : qtank :=
  mkQT (mkQS (s_cap (qt_s t)) vzero vzero vzero) (l_reinit (qt_l t)).
Definition qt_ds (t : qtank) : vqip := vds (s_sto (qt_s t)) (s_sto_ (qt_s t)).

(* operations of the queue-tank interpreter (also used by the correspondence check) *)
Inductive qop :=
| QPush (v : vqip) (time : nat) (force : bool) | QPull (v : Q) | QPullExact (v : vqip)
| QCheck (ov : option vqip) | QAvail | QEnd (T : Q) | QDs | QSetT (T : Q) | QReinit.
Definition qtank_do (t : qtank) (o : qop) : qtank * vqip :=
  match o with
  | QPush v time f => qt_push t v time f
  | QPull v => qt_pull t v
  | QPullExact v => qt_pull_exact t v
  | QCheck ov => (t, qt_push_check t ov)
  | QAvail => (t, qt_get_avail t)
  | QEnd T => (qt_end (qt_set_T t T), vzero)
  | QDs => (t, qt_ds t)
  | QSetT T => (qt_set_T t T, vzero)
  | QReinit => (qt_reinit t, vzero)
  end.
