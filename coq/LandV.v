(* LandV.v — executable model of wsimod/nodes/land.py for the surfaces of the exact generator: Land with
   ImperviousSurface and PerviousSurface (GrowingSurface and its nutrient pools are outside: they run in floating point
   only).  A surface is a (decay) tank with an area; per timestep it runs its inflow, process and outflow functions
   (Surface.run): deposition, then rain / evaporation (impervious: Boundary.imp_precip_evap, ponded water to sewers;
   pervious: the IHACRES equations, soil temperature, routing into the node's three residence tanks).  Land.run then
   releases the residence tanks to groundwater (percolation) and to rivers / junctions (runoff), taking back what is
   not placed.  Model file, no proofs (LandLaws.v). *)
From Coq Require Import QArith Qminmax List Bool Arith.
From WSI Require Import Vqip Pow Tank Arc Distrib Kinds TimeArea Boundary.
Import ListNotations.
Open Scope Q_scope.

Record perv := mkPerv {
  ps_depth : Q;            (* PerviousSurface.depth (= depth x total_porosity) *)
  ps_fc_m : Q; ps_wp_m : Q; (* field_capacity_m, wilting_point_m (fractions x constructor depth) *)
  ps_infil : Q;            (* infiltration_capacity *)
  ps_surf_c : Q; ps_perc_c : Q; ps_et0c : Q;
  ps_p : Q;                (* ihacres_p *)
  (* soil temperature: the class holds its weights as floats, so the weight of the deep soil term and the total weight
     are the FLOAT product 10 * 0.1 and the FLOAT sum 0.6 + 0.1 + 0.1 - four constants, computed by the harness the way
     the class computes them *)
  ps_w_prev : Q; ps_w_air : Q; ps_deep_term : Q; ps_w_total : Q
}.
Inductive skind := SImp (et0_to_e : Q) | SPerv (p : perv).
Record surface := mkSF { sf_kind : skind; sf_area : Q; sf_tank : tank; sf_load : vec }.

Definition set_temperature (v : vqip) (T : Q) : vqip :=
  mkV (vol v) (adds v) (match nons v with [] => [] | _ :: r => T :: r end).

(* PerviousSurface.ihacres on the soil tank: (tank', infiltration excess, subsurface flow, percolation, rain, evaporation) *)
Definition ihacres (p : perv) (area : Q) (t : tank) (rain et0 T : Q) (tn : vec)
  : tank * vqip * vqip * vqip * Q * Q :=
  let evap_depth := et0 * ps_et0c p in
  let infiltrated := Qmin rain (ps_infil p) in
  let excess0 := Qmax (rain - infiltrated) 0 in
  let cmd := vol (t_get_excess t None) / area in
  let smc := vol (t_sto t) / area in
  let ev0 := evap_depth * Qmin 1 (exp_s (2 * (1 - cmd / (ps_depth p - ps_wp_m p)))) in
  let outflow := infiltrated * (1 - Qmin 1 (pow_s (cmd / (ps_depth p - ps_fc_m p)) (ps_p p))) in
  let ev := Qmin ev0 (infiltrated - outflow + smc) in
  let surface := outflow * ps_surf_c p * area in
  let perc := outflow * (1 - ps_surf_c p) * ps_perc_c p * area in
  let ssf := outflow * (1 - ps_surf_c p) * (1 - ps_perc_c p) * area in
  let recharge := (infiltrated - ev - outflow) * area in
  let excess := excess0 * area + surface in
  let through := recharge + ssf + perc in
  let '(t', ssf_v, perc_v) :=
    if Qlt_le_dec 0 through then
      let '(t1, _) := t_push t (mkV (Qred through) [] tn) true in
      let '(t2, s) := t_pull t1 ssf in
      let '(t3, pc) := t_pull t2 perc in (t3, s, pc)
    else
      let '(t1, _) := t_evaporate t (- through) in (t1, vzero, vzero) in
  (t', mkV (Qred excess) [] tn, ssf_v, perc_v, Qred (rain * area), Qred (ev * area)).

Definition soil_temperature (p : perv) (t : tank) (T : Q) : tank :=
  let s := t_sto t in
  let cur := get (nons s) 0 in
  let new := (cur * ps_w_prev p + T * ps_w_air p + ps_deep_term p) / ps_w_total p in
  t_with t (set_temperature s (Qred new)).

Section Land.
Variable S : Type.
Variable P : port S.
Variable maxiter : nat.

Record land := mkLD {
  ld_surfs : list surface;
  ld_sr : tank; ld_ssr : tank; ld_perc : tank;     (* surface runoff, subsurface runoff, percolation (ResidenceTanks) *)
  ld_in : vqip; ld_out : vqip;                     (* running_inflow_mb / running_outflow_mb *)
  ld_outs : star S
}.

(* one surface: (surface', node tanks', accounts', out-star') *)
Definition run_surface (sf : surface) (sr ssr perc : tank) (mi mo : vqip) (outs : star S) (rain et0 T : Q) (tn : vec)
  : option (surface * tank * tank * tank * vqip * vqip * star S) :=
  let '(t0, mi0) :=
    match sf_load sf with
    | [] => (sf_tank sf, mi)
    | load => let '(t', dep) := simple_deposition (sf_tank sf) (sf_area sf) load in (t', vsum mi dep)
    end in
  match sf_kind sf with
  | SImp e =>
      let '(t1, pr, ev) := imp_precip_evap t0 (sf_area sf) e rain et0 tn in
      let mi1 := vsum mi0 (mkV pr [] []) in
      let mo1 := vsum mo (mkV ev [] []) in
      let '(t2, ponded) := t_pull_ponded t1 in
      match push_distributed S P maxiter (Some [T_SEWER]) outs ponded with
      | None => None
      | Some (outs', reply, _) =>
          let '(t3, _) := t_push t2 reply true in
          Some (mkSF (sf_kind sf) (sf_area sf) t3 (sf_load sf), sr, ssr, perc, mi1, mo1, outs')
      end
  | SPerv p =>
      let '(t1, excess, ssf_v, perc_v, pr, ev) := ihacres p (sf_area sf) t0 rain et0 T tn in
      let mi1 := vsum mi0 (mkV pr [] []) in
      let mo1 := vsum mo (mkV ev [] []) in
      let t2 := soil_temperature p t1 T in
      let '(sr', _) := t_push sr excess true in
      let '(ssr', _) := t_push ssr ssf_v true in
      let '(perc', _) := t_push perc perc_v true in
      Some (mkSF (sf_kind sf) (sf_area sf) t2 (sf_load sf), sr', ssr', perc', mi1, mo1, outs)
  end.

Fixpoint run_surfaces (sfs : list surface) (sr ssr perc : tank) (mi mo : vqip) (outs : star S) (rain et0 T : Q) (tn : vec)
  : option (list surface * tank * tank * tank * vqip * vqip * star S) :=
  match sfs with
  | [] => Some ([], sr, ssr, perc, mi, mo, outs)
  | sf :: r =>
      match run_surface sf sr ssr perc mi mo outs rain et0 T tn with
      | None => None
      | Some (sf', sr1, ssr1, perc1, mi1, mo1, outs1) =>
          match run_surfaces r sr1 ssr1 perc1 mi1 mo1 outs1 rain et0 T tn with
          | None => None
          | Some (r', sr2, ssr2, perc2, mi2, mo2, outs2) => Some (sf' :: r', sr2, ssr2, perc2, mi2, mo2, outs2)
          end
      end
  end.

(* the routing half of Land.run: percolation to groundwater, surface and subsurface runoff to rivers and junctions, what is
   not placed goes back into the tanks it came from (by volume share); a percolation remainder below FLOAT_ACCURACY is dropped *)
Definition ld_route (sr ssr perc : tank) (outs : star S) : option (tank * tank * tank * star S) :=
  let '(perc1, percolation) := t_pull_outflow perc in
  match push_distributed S P maxiter (Some [T_GROUNDWATER]) outs percolation with
  | None => None
  | Some (outs1, reply, _) =>
      let perc2 := if Qltb eps (vol reply) then fst (t_push perc1 reply true) else perc1 in
      let '(sr1, srv) := t_pull_outflow sr in
      let '(ssr1, ssrv) := t_pull_outflow ssr in
      let total := vsum srv ssrv in
      if Qlt_le_dec 0 (vol total) then
        match push_distributed S P maxiter (Some [T_RIVER; T_NODE]) outs1 total with
        | None => None
        | Some (outs2, back, _) =>
            if Qlt_le_dec 0 (vol back) then
              let bs := vchange back (vol back * vol srv / vol total) in
              let bss := vchange back (vol back * vol ssrv / vol total) in
              let sr2 := if Qlt_le_dec 0 (vol bs) then fst (t_push sr1 bs true) else sr1 in
              let ssr2 := if Qlt_le_dec 0 (vol bss) then fst (t_push ssr1 bss true) else ssr1 in
              Some (sr2, ssr2, perc2, outs2)
            else Some (sr1, ssr1, perc2, outs2)
        end
      else Some (sr1, ssr1, perc2, outs1)
  end.

Definition ld_run (l : land) (rain et0 T : Q) (tn : vec) : option land :=
  match run_surfaces (ld_surfs l) (ld_sr l) (ld_ssr l) (ld_perc l) (ld_in l) (ld_out l) (ld_outs l) rain et0 T tn with
  | None => None
  | Some (sfs, sr, ssr, perc, mi, mo, outs) =>
      match ld_route sr ssr perc outs with
      | None => None
      | Some (sr', ssr', perc', outs') => Some (mkLD sfs sr' ssr' perc' mi mo outs')
      end
  end.

(* push_set_sewer: flooding from a sewer goes to the first impervious surface; without one it is handed back *)
Fixpoint flood_first (sfs : list surface) (v : vqip) : list surface * vqip :=
  match sfs with
  | [] => ([], v)
  | sf :: r =>
      match sf_kind sf with
      | SImp _ => let '(t', rep) := t_push (sf_tank sf) v true in (mkSF (sf_kind sf) (sf_area sf) t' (sf_load sf) :: r, rep)
      | SPerv _ => let '(r', rep) := flood_first r v in (sf :: r', rep)
      end
  end.
Definition ld_push_set_sewer (l : land) (v : vqip) : land * vqip :=
  let '(sfs, rep) := flood_first (ld_surfs l) v in
  (mkLD sfs (ld_sr l) (ld_ssr l) (ld_perc l) (ld_in l) (ld_out l) (ld_outs l), rep).

Definition ld_end (l : land) (T : Q) : land :=
  mkLD (map (fun sf => mkSF (sf_kind sf) (sf_area sf) (t_end (sf_tank sf) T) (sf_load sf)) (ld_surfs l))
       (t_end (ld_sr l) T) (t_end (ld_ssr l) T) (t_end (ld_perc l) T) vzero vzero (ld_outs l).

End Land.
