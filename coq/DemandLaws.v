(* DemandLaws.v — a demand node keeps the accounts it declares (Demand.v): against any neighbours meeting the reply
   contract, create_demand records on its in-arcs exactly what it books as received, and on its out-arcs exactly what it
   books as generated less what it books as backed up - volume and every additive pollutant, any number of items, any
   type filters.  Hence its declared balance (arc inflow + total_demand) - (arc outflow + total_backup +
   total_received) is zero at the end of create_demand whenever it starts a timestep with empty accounts (C01 for this
   node class; C17: what it declares as generated is what it pushed or kept as backup). *)
From Coq Require Import QArith Qminmax Lqa List Bool Arith.
From WSI Require Import Vqip Pow Tank Arc Distrib Kinds TimeArea Boundary Demand TankLaws ArcLaws QueueLaws DistribLaws.
Import ListNotations.
Open Scope Q_scope.

Section DemandLaws.
Variable S : Type.
Variable P : port S.
Variable K : contract S P.
Hypothesis wet_replies : forall s v, okS S P K s -> wet v ->
  forall k, vol (snd (p_push_set P s v)) <= 0 -> get (adds (snd (p_push_set P s v))) k == 0.
Variable maxiter : nat.
Notation star_ok := (star_ok S P K).
Notation sumvin := (sumvin S).

Fixpoint isum (c : sel) (its : list (item)) : Q := match its with [] => 0 | i :: r => cmp c (fst i) + isum c r end.

Lemma fold_items_sum c : conserved c -> forall its z,
  cmp c (fold_left (fun acc (i : item) => vsum acc (fst i)) its z) == cmp c z + isum c its.
Proof.
  intros Hc. induction its as [|i r IH]; intros z; cbn [fold_left isum]; [ring|].
  rewrite IH, cmp_sum by exact Hc. ring.
Qed.
Lemma fold_items_vol : forall (its : list item) z,
  (forall i, In i its -> 0 <= vol (fst i)) -> 0 <= z -> 0 <= fold_left (fun acc (i : item) => acc + vol (fst i)) its z.
Proof.
  induction its as [|i r IH]; intros z Hi Hz; cbn [fold_left]; [exact Hz|].
  apply IH; [intros j Hj; apply Hi; right; exact Hj|]. pose proof (Hi i (or_introl eq_refl)). lra.
Qed.

Lemma push_items_books c : conserved c -> forall its outs backup outs' backup',
  star_ok outs -> (forall i, In i its -> wet (fst i)) ->
  push_items S P maxiter outs backup its = Some (outs', backup') ->
  star_ok outs' /\
  sumvin c outs' - sumvin c outs == isum c its - (cmp c backup' - cmp c backup).
Proof.
  intros Hc. induction its as [|[v ot] r IH]; intros outs backup outs' backup' Hok Hw Hrun; cbn [push_items isum] in *.
  - inversion Hrun; subst. split; [exact Hok | ring].
  - destruct (push_distributed S P maxiter ot outs v) as [[[outs1 rem] m]|] eqn:E; [|discriminate].
    assert (Hwv : wet v) by (apply (Hw (v, ot)); left; reflexivity).
    destruct (push_distributed_spec S P K wet_replies maxiter ot outs v outs1 rem m Hok Hwv E) as (Hok1 & _ & _ & V1 & _).
    destruct (IH outs1 (vsum backup rem) outs' backup' Hok1 (fun i Hi => Hw i (or_intror Hi)) Hrun) as (Hok' & HE).
    split; [exact Hok'|]. cbn [fst]. rewrite cmp_sum in HE by exact Hc. pose proof (V1 c Hc). lra.
Qed.

Theorem dm_create_books (n n' : dmnode S) its :
  star_ok (dm_ins S n) -> star_ok (dm_outs S n) -> (forall i, In i its -> wet (fst i)) ->
  dm_create S P maxiter n its = Some n' ->
  star_ok (dm_ins S n') /\ star_ok (dm_outs S n') /\
  forall c, conserved c ->
    (* what the in-arcs recorded is what the node books as received *)
    sumvin c (dm_ins S n') - sumvin c (dm_ins S n) == cmp c (dm_received S n') /\
    (* what the out-arcs recorded is what it books as generated less what it books as backed up *)
    sumvin c (dm_outs S n') - sumvin c (dm_outs S n) ==
      (cmp c (dm_demand S n') - cmp c (dm_demand S n)) - (cmp c (dm_backup S n') - cmp c (dm_backup S n)) /\
    cmp c (dm_demand S n') - cmp c (dm_demand S n) == isum c its.
Proof.
  intros Hi Ho Hw Hrun. unfold dm_create in Hrun.
  set (total := fold_left (fun acc (i : item) => acc + vol (fst i)) its 0) in *.
  assert (Ht : 0 <= total).
  { apply fold_items_vol; [|lra]. intros i Hin. pose proof (proj1 (Hw i Hin) SVol I) as H; cbn [cmp] in H. exact H. }
  destruct (pull_distributed S P maxiter None (dm_ins S n) total) as [[[ins' got] m]|] eqn:Ep; [|discriminate].
  destruct (pull_distributed_spec S P K maxiter None _ _ _ _ _ Hi Ht Ep) as (Hi' & _ & _ & Vp & _).
  destruct (push_items S P maxiter (dm_outs S n) (dm_backup S n) its) as [[outs' backup']|] eqn:Eq; [|discriminate].
  inversion Hrun; subst n'. cbn [dm_ins dm_outs dm_demand dm_backup dm_received].
  assert (Hok' : star_ok outs').
  { destruct (push_items_books SVol I its _ _ _ _ Ho Hw Eq) as (H & _). exact H. }
  split; [exact Hi'|]. split; [exact Hok'|].
  intros c Hc. destruct (push_items_books c Hc its _ _ _ _ Ho Hw Eq) as (_ & HE).
  pose proof (fold_items_sum c Hc its (dm_demand S n)) as HD.
  split; [rewrite (Vp c Hc); ring|]. split; [rewrite HD; lra | rewrite HD; ring].
Qed.

End DemandLaws.
