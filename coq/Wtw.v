(* Wtw.v — executable model of wsimod/nodes/wtw.py: the treatment step shared by both works (WTW.treat_current_input:
   a temperature-sensitive transform per additive pollutant into effluent, liquor and solids) and the WWTW around it
   (throughput limit, stormwater tank, push check / push set for sewers, calculate_discharge, make_discharge, reuse
   pulls, close-out).  Parameters are positional: one entry per additive pollutant, in the order of the pollutant list;
   the temperature is the first non-additive pollutant.  Model file, no proofs (WtwLaws.v). *)
From Coq Require Import QArith Qminmax List Bool Arith.
From WSI Require Import Vqip Pow Tank Arc Distrib Kinds.
Import ListNotations.
Open Scope Q_scope.

Record wparams := mkWP {
  w_cap : Q;                 (* treatment_throughput_capacity *)
  w_ps : Q;                  (* percent_solids *)
  w_lmvol : Q;               (* liquor_multiplier["volume"] *)
  w_lm : vec;                (* liquor_multiplier per additive pollutant *)
  w_const : vec; w_expo : vec   (* process_parameters per additive pollutant *)
}.
(* process_parameters["volume"]["constant"] = calculate_volume() *)
Definition w_volconst (p : wparams) : Q := 1 - w_ps p - w_lmvol p.

(* treat_current_input: (treated', liquor', solids) from the input of the timestep *)
Definition w_treat (p : wparams) (influent treated liquor : vqip) : vqip * vqip * vqip :=
  let T := get (nons influent) 0 in
  let lv := vol liquor + vol influent * w_lmvol p in
  let lnons :=
    if Qlt_le_dec 0 lv
    then vmap2 (fun lk ik => (lk * vol liquor + ik * vol influent * w_lmvol p) / lv) (nons liquor) (nons influent)
    else nons liquor in
  let tf := map (fun e => pow_s e ((20#1) - T)) (w_expo p) in
  let dadds := vmap2 Qmult (vmap2 Qmult (adds influent) (w_const p)) tf in
  let discharge := mkV (vol influent * w_volconst p) dadds (nons influent) in
  let ladds := vmap2 Qmult (adds influent) (w_lm p) in
  let liquor' := mkV (vol influent * w_lmvol p) ladds lnons in
  let solids := mkV (vol influent * w_ps p) (vmap2 Qminus (vmap2 Qminus (adds influent) dadds) ladds) [] in
  (vsum treated (vnorm discharge), vnorm liquor', vnorm solids).

Section Wwtw.
Variable S : Type.
Variable P : port S.
Variable maxiter : nat.

Record wwtw := mkWW {
  ww_p : wparams;
  ww_cur : vqip; ww_treated : vqip; ww_liquor : vqip; ww_liquor_ : vqip; ww_solids : vqip; ww_prev : vqip;
  ww_tank : tank;            (* stormwater tank *)
  ww_outs : star S
}.
Definition ww_set (w : wwtw) (cur treated liquor solids : vqip) (t : tank) (outs : star S) : wwtw :=
  mkWW (ww_p w) cur treated liquor (ww_liquor_ w) solids (ww_prev w) t outs.

Definition ww_excess_throughput (w : wwtw) : Q := Qmax (w_cap (ww_p w) - vol (ww_cur w)) 0.

Definition ww_push_check (w : wwtw) (ov : option vqip) : vqip :=
  let room := vol (t_get_excess (ww_tank w) None) + ww_excess_throughput w in
  match ov with
  | None => vchange vzero room
  | Some v => vchange v (Qmin room (vol v))
  end.

Definition ww_push_set (w : wwtw) (v : vqip) : wwtw * vqip :=
  let direct := vchange v (Qmin (ww_excess_throughput w) (vol v)) in
  let cur' := vsum (ww_cur w) direct in
  if Qeq_bool (vol direct) (vol v) then
    (ww_set w cur' (ww_treated w) (ww_liquor w) (ww_solids w) (ww_tank w) (ww_outs w), vzero)
  else
    let rest := vchange v (vol v - vol direct) in
    let '(t', back) := t_push (ww_tank w) rest false in
    (ww_set w cur' (ww_treated w) (ww_liquor w) (ww_solids w) t' (ww_outs w),
     if Qltb (vol back) eps then vzero else back).

Definition ww_calculate_discharge (w : wwtw) : wwtw :=
  let excess := ww_excess_throughput w in
  let avail := vol (t_get_avail (ww_tank w) None) in
  let '(t', cur1) :=
    if Qltb eps avail && Qltb eps excess then
      let '(t', cleared) := t_pull (ww_tank w) (Qmin excess avail) in (t', vsum (ww_cur w) cleared)
    else (ww_tank w, ww_cur w) in
  let cur2 := vsum cur1 (ww_liquor w) in
  let '(treated', liquor', solids') := w_treat (ww_p w) cur2 (ww_treated w) (ww_liquor w) in
  ww_set w cur2 treated' liquor' solids' t' (ww_outs w).

Definition ww_make_discharge (w : wwtw) : option wwtw :=
  match push_distributed S P maxiter None (ww_outs w) (ww_treated w) with
  | None => None
  | Some (outs', reply, _) =>
      let t' := if Qltb eps (vol reply) then fst (t_push (ww_tank w) reply true) else ww_tank w in
      Some (ww_set w (ww_cur w) vzero (ww_liquor w) (ww_solids w) t' outs')
  end.

Definition ww_pull_check (w : wwtw) : vqip := ww_treated w.
Definition ww_pull_set (w : wwtw) (q : Q) : wwtw * vqip :=
  let rv := Qmin q (vol (ww_treated w)) in
  let reply := vchange (ww_treated w) rv in
  (ww_set w (ww_cur w) (vchange (ww_treated w) (vol (ww_treated w) - rv)) (ww_liquor w) (ww_solids w) (ww_tank w) (ww_outs w), reply).

Definition ww_end (w : wwtw) (T : Q) : wwtw :=
  mkWW (ww_p w) vzero (ww_treated w) (ww_liquor w) (ww_liquor w) vzero (ww_cur w) (t_end (ww_tank w) T) (ww_outs w).

Definition ww_override (w : wwtw) (p : wparams) (tank_cap : Q) : wwtw :=
  let t := ww_tank w in
  mkWW p (ww_cur w) (ww_treated w) (ww_liquor w) (ww_liquor_ w) (ww_solids w) (ww_prev w)
       (mkT tank_cap (t_sto t) (t_sto_ t) (t_dec t) (t_decayed t) (t_res t)) (ww_outs w).

End Wwtw.

(* ---------------- FWTW ---------------- *)
Section Fwtw.
Variable S : Type.
Variable P : port S.
Variable maxiter : nat.

Record fwtw := mkFW {
  fw_p : wparams;
  fw_cur : vqip; fw_treated : vqip; fw_liquor : vqip; fw_solids : vqip;
  fw_deficit : vqip; fw_pulled : vqip; fw_prev_pulled : vqip; fw_unpushed : vqip;
  fw_tank : tank;            (* service reservoir *)
  fw_ins : star S; fw_outs : star S
}.

(* treat_water: fill the service reservoir as far as throughput allows; what cannot be pulled is made up ("deficit",
   with the quality of what was supplied in the previous timestep); liquor and solids go to sewers *)
Definition fw_treat_water (f : fwtw) : option fwtw :=
  let target := Qmin (vol (t_get_excess (fw_tank f) None)) (w_cap (fw_p f)) in
  match pull_distributed S P maxiter None (fw_ins f) target with
  | None => None
  | Some (ins', throughput, _) =>
      let deficit := vchange (fw_prev_pulled f) (Qmax (target - vol throughput) 0) in
      let cur := vsum throughput deficit in
      let '(treated', liquor', solids') := w_treat (fw_p f) cur (fw_treated f) (fw_liquor f) in
      match push_distributed S P maxiter (Some [T_SEWER]) (fw_outs f) (vsum liquor' solids') with
      | None => None
      | Some (outs', rejected, _) =>
          let '(t1, excess) := t_push (fw_tank f) treated' false in
          let '(t2, _) := t_push t1 excess true in
          Some (mkFW (fw_p f) cur treated' liquor' solids' (vsum (fw_deficit f) deficit) (fw_pulled f) (fw_prev_pulled f)
                     (vsum (fw_unpushed f) rejected) t2 ins' outs')
      end
  end.
Definition fw_pull_check (f : fwtw) (ov : option Q) : vqip := t_get_avail (fw_tank f) ov.
Definition fw_pull_set (f : fwtw) (q : Q) : fwtw * vqip :=
  let '(t', pulled) := t_pull (fw_tank f) q in
  (mkFW (fw_p f) (fw_cur f) (fw_treated f) (fw_liquor f) (fw_solids f) (fw_deficit f) (vsum (fw_pulled f) pulled)
        (fw_prev_pulled f) (fw_unpushed f) t' (fw_ins f) (fw_outs f), pulled).
Definition fw_end (f : fwtw) (T : Q) : fwtw :=
  mkFW (fw_p f) (fw_cur f) vzero (fw_liquor f) (fw_solids f) vzero vzero (fw_pulled f) vzero (t_end (fw_tank f) T)
       (fw_ins f) (fw_outs f).
Definition fw_override (f : fwtw) (p : wparams) (tank_cap : Q) : fwtw :=
  let t := fw_tank f in
  mkFW p (fw_cur f) (fw_treated f) (fw_liquor f) (fw_solids f) (fw_deficit f) (fw_pulled f) (fw_prev_pulled f) (fw_unpushed f)
       (mkT tank_cap (t_sto t) (t_sto_ t) (t_dec t) (t_decayed t) (t_res t)) (fw_ins f) (fw_outs f).

End Fwtw.
