(* WtwWet.v — what the treatment step hands on is wet (no pollutant mass without water) whenever the process parameters are
   well-formed for the temperature of the influent: the hypotheses `wet (fw_treated f')` / `wet (liquor' + solids')` of
   WtwLaws.fw_treat_water_books follow from conditions on the PARAMETERS. *)
From Coq Require Import QArith Qminmax Lqa List Bool Arith.
From WSI Require Import Vqip Pow Tank Arc Distrib Kinds Wtw TankLaws ArcLaws LandRouting.
Import ListNotations.
Open Scope Q_scope.

Definition w_tf (p : wparams) (T : Q) : vec := map (fun e => pow_s e ((20#1) - T)) (w_expo p).

(* well-formed for temperature T: shares of volume in [0,1) with something left for the effluent and something for the
   waste; positive exponent bases; per pollutant: non-negative constant and liquor share, and the temperature-corrected
   share kept in the effluent plus the liquor share is at most everything *)
Definition params_ok (p : wparams) (T : Q) : Prop :=
  0 <= w_ps p /\ 0 <= w_lmvol p /\ 0 < w_ps p + w_lmvol p /\ w_ps p + w_lmvol p < 1 /\
  Forall (fun e => 0 < e) (w_expo p) /\
  forall k, 0 <= get (w_const p) k /\ 0 <= get (w_lm p) k /\
            get (w_const p) k * get (w_tf p T) k + get (w_lm p) k <= 1.

Lemma wet_norm v : wet v -> wet (vnorm v).
Proof.
  intros [Hn Hd]. split.
  - intros c Hc. rewrite cmp_norm. apply Hn; exact Hc.
  - intros Hv k. change (vol (vnorm v)) with (cmp SVol (vnorm v)) in Hv. rewrite cmp_norm in Hv. cbn [cmp] in Hv.
    change (get (adds (vnorm v)) k) with (cmp (SAdd k) (vnorm v)). rewrite cmp_norm. cbn [cmp]. apply Hd; exact Hv.
Qed.

Lemma tf_nonneg p T k : Forall (fun e => 0 < e) (w_expo p) -> 0 <= get (w_tf p T) k.
Proof.
  unfold w_tf. intros H. revert k. induction H as [|e l He Hl IH]; intros k.
  - cbn [map]. rewrite get_nil. lra.
  - destruct k as [|k]; unfold get in *; cbn [map nth].
    + apply Qlt_le_weak, pow_s_pos; exact He.
    + apply IH.
Qed.

Theorem w_treat_wet p influent treated liquor : wet influent -> wet treated ->
  params_ok p (get (nons influent) 0) ->
  let '(tr, lq, so) := w_treat p influent treated liquor in wet tr /\ wet (vsum lq so).
Proof.
  intros [Ni Di] Wt (Hps & Hlm & Hpos & Hlt & Hexp & Hk). unfold w_treat. cbn zeta.
  fold (w_tf p (get (nons influent) 0)).
  set (tf := w_tf p (get (nons influent) 0)) in *.
  pose proof (Ni SVol I) as Vi. cbn [cmp] in Vi.
  assert (A : forall k, 0 <= get (adds influent) k) by (intros k; apply (Ni (SAdd k) I)).
  assert (TF : forall k, 0 <= get tf k) by (intros k; apply tf_nonneg; exact Hexp).
  assert (DA : forall k, get (vmap2 Qmult (vmap2 Qmult (adds influent) (w_const p)) tf) k
                         == get (adds influent) k * get (w_const p) k * get tf k).
  { intros k. rewrite get_vmap2 by lra. rewrite get_vmap2 by lra. reflexivity. }
  assert (LA : forall k, get (vmap2 Qmult (adds influent) (w_lm p)) k == get (adds influent) k * get (w_lm p) k).
  { intros k. rewrite get_vmap2 by lra. reflexivity. }
  assert (Dry : vol influent <= 0 -> forall k, get (adds influent) k == 0) by exact Di.
  split.
  - (* the treated water *)
    apply wet_sum; [exact Wt|]. apply wet_norm. split.
    + intros c Hc. destruct c as [|k|k]; [| |destruct Hc]; cbn [cmp vol adds].
      * unfold w_volconst. apply Qmult_le_0_compat; lra.
      * rewrite DA. destruct (Hk k) as (Hc0 & _). pose proof (A k). pose proof (TF k).
        apply Qmult_le_0_compat; [apply Qmult_le_0_compat|]; assumption.
    + cbn [vol adds]. intros Hv k. rewrite DA.
      assert (Hi : vol influent <= 0).
      { unfold w_volconst in Hv. destruct (Qlt_le_dec 0 (vol influent)) as [H|H]; [|exact H].
        assert (0 < vol influent * (1 - w_ps p - w_lmvol p)) by (apply Qmult_lt_0_compat; lra). lra. }
      rewrite (Dry Hi k). ring.
  - (* the waste: liquor and solids together *)
    split.
    + intros c Hc. rewrite cmp_sum by exact Hc. rewrite !cmp_norm.
      destruct c as [|k|k]; [| |destruct Hc]; cbn [cmp vol adds].
      * assert (0 <= vol influent * w_lmvol p) by (apply Qmult_le_0_compat; lra).
        assert (0 <= vol influent * w_ps p) by (apply Qmult_le_0_compat; lra). lra.
      * repeat (rewrite get_vmap2 by lra).
        destruct (Hk k) as (Hc0 & Hl0 & Hle). fold tf in Hle. pose proof (A k) as Ak. pose proof (TF k) as Tk.
        assert (E : get (adds influent) k * get (w_lm p) k +
                    (get (adds influent) k - get (adds influent) k * get (w_const p) k * get tf k - get (adds influent) k * get (w_lm p) k)
                    == get (adds influent) k * (1 - get (w_const p) k * get tf k)) by ring.
        rewrite E. apply Qmult_le_0_compat; [exact Ak | lra].
    + intros Hv k. rewrite vol_sum in Hv.
      change (vol (vnorm ?x)) with (cmp SVol (vnorm x)) in Hv.
      assert (Hv' : vol influent * w_lmvol p + vol influent * w_ps p <= 0).
      { revert Hv. rewrite !(cmp_norm SVol). cbn [cmp vol]. intros Hv; exact Hv. }
      assert (Hi : vol influent <= 0).
      { destruct (Qlt_le_dec 0 (vol influent)) as [H|H]; [|exact H].
        assert (0 < vol influent * (w_lmvol p + w_ps p)) by (apply Qmult_lt_0_compat; lra).
        assert (vol influent * (w_lmvol p + w_ps p) == vol influent * w_lmvol p + vol influent * w_ps p) by ring. lra. }
      rewrite add_sum.
      change (get (adds (vnorm ?x)) k) with (cmp (SAdd k) (vnorm x)). rewrite !cmp_norm. cbn [cmp adds].
      repeat (rewrite get_vmap2 by lra). rewrite (Dry Hi k). ring.
Qed.

(* ---- the books of FWTW.treat_water under conditions on the parameters ---- *)
From WSI Require Import QueueLaws DistribLaws WtwLaws.

Section FwtwParams.
Variable S : Type.
Variable P : port S.
Variable K : contract S P.
Hypothesis wet_replies : forall s v, okS S P K s -> wet v ->
  forall k, vol (snd (p_push_set P s v)) <= 0 -> get (adds (snd (p_push_set P s v))) k == 0.
Variable maxiter : nat.

Lemma fw_treat_water_outputs (f f' : fwtw S) : fw_treat_water S P maxiter f = Some f' ->
  (fw_treated S f', fw_liquor S f', fw_solids S f') = w_treat (fw_p S f) (fw_cur S f') (fw_treated S f) (fw_liquor S f).
Proof.
  unfold fw_treat_water. intros H.
  destruct (pull_distributed S P maxiter None (fw_ins S f) _) as [[[ins' thr] m1]|]; [|discriminate].
  match type of H with context [w_treat ?p ?c ?t ?l] => destruct (w_treat p c t l) as [[tr lq] so] eqn:Et end.
  destruct (push_distributed S P maxiter (Some [T_SEWER]) (fw_outs S f) (vsum lq so)) as [[[outs' rej] m2]|]; [|discriminate].
  destruct (t_push (fw_tank S f) tr false) as [t1 excess]. destruct (t_push t1 excess true) as [t2 r2].
  inversion H; subst f'. cbn [fw_treated fw_liquor fw_solids fw_cur]. symmetry; exact Et.
Qed.

(* what treat_water works on is wet, what was on the books before is wet, the parameters are well-formed for the temperature
   of what it works on: then the books close (no hypothesis on what the works hand on) *)
Theorem fw_treat_water_books_from_parameters (f f' : fwtw S) c : conserved c ->
  star_ok S P K (fw_ins S f) -> star_ok S P K (fw_outs S f) -> 0 <= w_cap (fw_p S f) ->
  fw_treat_water S P maxiter f = Some f' ->
  wet (fw_cur S f') -> wet (fw_treated S f) -> params_ok (fw_p S f) (get (nons (fw_cur S f')) 0) ->
  (cmp c (t_sto (fw_tank S f')) - cmp c (t_sto (fw_tank S f)))
  + (sumvin S c (fw_outs S f') - sumvin S c (fw_outs S f))
  + (cmp c (fw_unpushed S f') - cmp c (fw_unpushed S f))
  ==
  (sumvin S c (fw_ins S f') - sumvin S c (fw_ins S f))
  + (cmp c (fw_deficit S f') - cmp c (fw_deficit S f))
  + cmp c (fw_treated S f).
Proof.
  intros Hc Hi Ho Hcap Hrun Wc Wt Hp.
  pose proof (fw_treat_water_outputs f f' Hrun) as E.
  pose proof (w_treat_wet (fw_p S f) (fw_cur S f') (fw_treated S f) (fw_liquor S f) Wc Wt Hp) as W.
  rewrite <- E in W. destruct W as [W1 W2].
  exact (fw_treat_water_books S P K wet_replies maxiter f f' c Hc Hi Ho Hcap Hrun W1 W2).
Qed.

End FwtwParams.

(* the parameter conditions are met by the concrete works of WtwLaws.fw_example at 15 degrees *)
Example params_ok_example : params_ok fw_example_params (15#1).
Proof.
  unfold params_ok, fw_example_params; cbn [w_ps w_lmvol w_expo w_const w_lm].
  split; [lra|]. split; [lra|]. split; [lra|]. split; [lra|]. split; [repeat constructor; lra|].
  intros k. unfold w_tf; cbn [w_expo map].
  assert (T1 : pow_s 1 ((20#1) - (15#1)) == 1) by (vm_compute; reflexivity).
  destruct k as [|[|k]]; unfold get; cbn [nth]; rewrite ?T1; try (repeat split; lra).
  all: try (destruct k; cbn [nth]; repeat split; lra).
Qed.
