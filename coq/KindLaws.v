(* KindLaws.v — laws of the store-backed node kinds (Kinds.v) and of the
   check -> request protocol:
   - honest checks (C07): what a store, or a store behind a plain arc, reports as
     available / as room is exactly what the next request gets / places;
   - river minimum required flow (C19);
   - river-reservoir environmental release (C19);
   - conservation of each orchestration function (C01);
   - catchment boundary fidelity (C17). *)
From Coq Require Import QArith Qminmax Lqa Lia List Bool Arith Setoid Morphisms.
From WSI Require Import Vqip Pow Enc Tank Arc QTank Distrib Kinds Run TankLaws ArcLaws QueueLaws DistribLaws Erasure.
Import ListNotations.
Open Scope Q_scope.

(* ---------------- honest checks: stores ---------------- *)
Lemma t_pull_vol t q : 0 <= q -> 0 <= vol (t_sto t) -> vol (snd (t_pull t q)) == Qmin q (vol (t_sto t)).
Proof.
  intros Hq Hs. unfold t_pull. destruct (Qeq_bool (vol (t_sto t)) 0) eqn:E.
  - apply Qeq_bool_iff in E. cbn [snd vol vzero]. rewrite E. symmetry. apply Q.min_r. exact Hq.
  - cbn [snd]. apply vol_change.
Qed.
(* pull: the store offers X = its volume; a request for y gets min(y, X) *)
Theorem store_pull_honest t y : 0 <= y -> 0 <= vol (t_sto t) ->
  vol (snd (t_pull t y)) == Qmin y (vol (t_get_avail t None)).
Proof. intros Hy Hs. unfold t_get_avail. apply t_pull_vol; assumption. Qed.
(* push: the store reports room X; an offer of volume v leaves max(v - X, 0) unplaced *)
Theorem store_push_honest t v :
  vol (snd (t_push t v false)) == Qmax (vol v - vol (t_get_excess t None)) 0.
Proof. rewrite t_push_reply_vol, (t_excess_vol t None). reflexivity. Qed.

(* what a store hands over on a pull is wet: no pollutant mass without water *)
Lemma t_pull_wet t q : nonneg (t_sto t) -> 0 <= q -> wet (snd (t_pull t q)).
Proof.
  intros Hn Hq. split; [apply (t_pull_nonneg t q Hn Hq)|].
  intros Hv k0. unfold t_pull in *. destruct (Qeq_bool (vol (t_sto t)) 0) eqn:E; cbn [snd] in *.
  - change (get [] k0 == 0). rewrite get_nil. reflexivity.
  - rewrite vol_change in Hv. pose proof (Hn SVol I) as Hs0; cbn [cmp] in Hs0.
    assert (Hp : 0 < vol (t_sto t)).
    { destruct (Qlt_le_dec 0 (vol (t_sto t))) as [H|H]; [exact H|]. assert (H0 : vol (t_sto t) == 0) by lra.
      apply Qeq_bool_iff in H0. congruence. }
    rewrite add_change_pos by exact Hp.
    assert (H : Qmin q (vol (t_sto t)) == 0) by (pose proof (Q.min_glb _ _ _ Hq Hs0); lra).
    rewrite H. unfold Qdiv. ring.
Qed.

(* ---------------- honest checks: a plain arc in front of a tank-backed node ---------------- *)
(* X = send_pull_check(); then send_pull_request(y) returns min(y, X), for every arc state and store level *)
(* case analysis on every min / max in the goal and the hypotheses, innermost first *)
Ltac minmax1 :=
  match goal with
  | |- context [Qmin ?p ?q] =>
      lazymatch p with context [Qmin _ _] => fail | context [Qmax _ _] => fail | _ =>
      lazymatch q with context [Qmin _ _] => fail | context [Qmax _ _] => fail | _ =>
        let H1 := fresh "M" in let H2 := fresh "M" in
        destruct (Q.min_spec p q) as [[H1 H2]|[H1 H2]]; rewrite H2 in * end end
  | |- context [Qmax ?p ?q] =>
      lazymatch p with context [Qmin _ _] => fail | context [Qmax _ _] => fail | _ =>
      lazymatch q with context [Qmin _ _] => fail | context [Qmax _ _] => fail | _ =>
        let H1 := fresh "M" in let H2 := fresh "M" in
        destruct (Q.max_spec p q) as [[H1 H2]|[H1 H2]]; rewrite H2 in * end end
  end.
Ltac minmax := repeat minmax1.

Lemma capped_request y E : y - Qmax (y - E) 0 == Qmin y E.
Proof. minmax; lra. Qed.

Theorem arc_pull_honest (a : arc) (ti : tank) (o : nb) y : 0 <= y -> 0 <= vol (t_sto ti) -> a_fin a <= a_cap a ->
  let X := vol (a_excess_pull _ nbport a (NT ti, o) None) in
  vol (snd (a_send_pull _ nbport a (NT ti, o) y)) == Qmin y X.
Proof.
  intros Hy Hs Hf. cbn zeta.
  set (c := a_cap a - a_fin a). set (s := vol (t_sto ti)).
  assert (HX : vol (a_excess_pull _ nbport a (NT ti, o) None) == Qmin c s).
  { rewrite excess_pull_vol. cbn [nbport p_pull_check fst nb_pull_check t_get_avail]. reflexivity. }
  assert (HE : vol (a_excess_pull _ nbport a (NT ti, o) (Some y)) == Qmin c (Qmin s y)).
  { rewrite excess_pull_vol. cbn [nbport p_pull_check fst nb_pull_check t_get_avail]. rewrite vol_change. reflexivity. }
  unfold a_send_pull.
  set (E := vol (a_excess_pull _ nbport a (NT ti, o) (Some y))) in *.
  set (volume := y - Qmax (y - E) 0).
  assert (Hv : volume == Qmin y (Qmin c s) /\ 0 <= volume).
  { unfold volume. rewrite capped_request, HE. unfold c, s in *. split; minmax; lra. }
  destruct Hv as [Hv Hv0].
  cbn [nbport p_pull_set fst nb_pull_set].
  pose proof (t_pull_vol ti (Qred volume) ltac:(rewrite Qred_correct; exact Hv0) Hs) as Hp.
  destruct (t_pull ti (Qred volume)) as [t' r]. cbn [snd fst] in *.
  rewrite Hp, Qred_correct, Hv, HX. fold s. minmax; lra.
Qed.

(* X = send_push_check(); then send_push_request(v) leaves max(vol v - X, 0) unplaced *)
Theorem arc_push_honest (a : arc) (i : nb) (to : tank) v : wet v -> a_fin a <= a_cap a ->
  let X := vol (a_excess_push _ nbport a (i, NT to) None) in
  vol (snd (a_send_push _ nbport a (i, NT to) v false)) == Qmax (vol v - X) 0.
Proof.
  intros Hw Hf. cbn zeta.
  set (c := a_cap a - a_fin a). set (room := Qmax (t_cap to - vol (t_sto to)) 0).
  pose proof (proj1 Hw SVol I) as Hv; cbn [cmp] in Hv.
  assert (Hroom : 0 <= room) by (unfold room; apply Q.le_max_r).
  assert (HX : vol (a_excess_push _ nbport a (i, NT to) None) == Qmin c room).
  { rewrite excess_push_vol. cbn [nbport p_push_check snd nb_push_check option_map]. rewrite t_excess_vol. reflexivity. }
  assert (HE : vol (a_excess_push _ nbport a (i, NT to) (Some v)) == Qmin c (Qmin (vol v) room)).
  { rewrite excess_push_vol. cbn [nbport p_push_check snd nb_push_check option_map]. rewrite t_excess_vol. reflexivity. }
  unfold a_send_push.
  set (E := vol (a_excess_push _ nbport a (i, NT to) (Some v))) in *.
  set (np := vchange v (Qmax (vol v - E) 0)).
  cbn [nbport p_push_set snd fst nb_push_set].
  pose proof (t_push_reply_vol to (vsub v np)) as Hr.
  destruct (t_push to (vsub v np) false) as [t' r]. cbn [snd fst] in *.
  rewrite vol_sum, Hr. unfold np. rewrite vol_sub, !vol_change, HX, HE. fold room.
  unfold c in *. minmax; lra.
Qed.

(* ======================================================================= *)
Section KindLaws.
Variable S : Type.
Variable P : port S.
Variable K : contract S P.
Variable maxiter : nat.
Hypothesis wet_replies : forall s v, okS S P K s -> wet v ->
  forall k, vol (snd (p_push_set P s v)) <= 0 -> get (adds (snd (p_push_set P s v))) k == 0.

Notation knode := (knode S).
Definition stock (k : knode) : vqip := t_sto (k_tank S k).
Definition kind_ok (k : knode) : Prop :=
  nonneg (stock k) /\ star_ok S P K (k_outs S k) /\ star_ok S P K (k_ins S k).

(* ---------------- River: minimum required flow ---------------- *)
Definition allowance (k : knode) : Q := k_mrf S k / riverrc S k.
(* the water available to the river: its own store plus what it sees upstream *)
Definition river_water (k : knode) : Q := vol (stock k) + rv_upstream S P k.

Lemma rv_pull_check_vol k ov :
  vol (rv_pull_check S P k ov) ==
  match ov with
  | None => Qmax (river_water k - allowance k) 0
  | Some q => Qmin (Qmax (river_water k - allowance k) 0) q
  end.
Proof.
  unfold rv_pull_check. rewrite vol_change. unfold river_water, allowance, stock.
  destruct ov; rewrite Qred_correct; reflexivity.
Qed.

(* an abstraction never takes more than what is above the allowance, nor more than asked;
   in particular it takes nothing when the river is at or below its allowance *)
Theorem river_abstraction_bounded k q k' r : kind_ok k -> 0 <= q ->
  rv_pull_set S P maxiter k q = Some (k', r) ->
  vol r <= Qmax (river_water k - allowance k) 0 /\ vol r <= q /\ 0 <= vol r /\
  (river_water k <= allowance k -> vol r == 0) /\
  (forall c, conserved c -> cmp c (stock k') + sumvin S c (k_ins S k') + 0 ==
                            cmp c (stock k) + sumvin S c (k_ins S k) + 0 - cmp c r + 2 * (sumvin S c (k_ins S k') - sumvin S c (k_ins S k))) /\
  k_outs S k' = k_outs S k.
Proof.
  intros (Hn & Ho & Hi) Hq Hrun. unfold rv_pull_set in Hrun.
  pose proof (rv_pull_check_vol k (Some q)) as Hav.
  set (avail := rv_pull_check S P k (Some q)) in *.
  set (X := Qmax (river_water k - allowance k) 0) in *.
  assert (HX : 0 <= X) by (unfold X; apply Q.le_max_r).
  assert (Hav0 : 0 <= vol avail <= q /\ vol avail <= X).
  { rewrite Hav. destruct (Q.min_spec X q) as [[A B]|[A B]]; rewrite B; lra. }
  pose proof (Hn SVol I) as Hs0; cbn [cmp] in Hs0. fold (stock k) in *.
  pose proof (t_pull_vol (k_tank S k) (vol avail) (proj1 (proj1 Hav0)) Hs0) as Hpv.
  pose proof (fun c Hc => t_pull_spec (k_tank S k) (vol avail) c Hc Hn (proj1 (proj1 Hav0))) as Hps.
  destruct (t_pull (k_tank S k) (vol avail)) as [t1 pulled] eqn:Etp. cbn [fst snd] in *.
  assert (Hwant : 0 <= Qred (vol avail - vol pulled)).
  { rewrite Qred_correct, Hpv. destruct (Q.min_spec (vol avail) (vol (t_sto (k_tank S k)))) as [[A B]|[A B]]; rewrite B; lra. }
  destruct (pull_distributed S P maxiter (Some [T_RIVER; T_NODE]) (k_ins S k) (Qred (vol avail - vol pulled)))
    as [[[ins' got] msg]|] eqn:Epd; [|discriminate].
  inversion Hrun; subst k' r. clear Hrun.
  destruct (pull_distributed_spec S P K maxiter _ _ _ _ _ _ Hi Hwant Epd) as (D1 & D2 & D3 & D4 & _).
  rewrite Qred_correct in D3. pose proof (D2 SVol I) as G0; cbn [cmp] in G0.
  destruct (Hps SVol I) as (P1 & _ & _); cbn [cmp] in P1.
  rewrite vol_sum.
  split; [lra|]. split; [lra|]. split; [lra|].
  split.
  { intros Hle. assert (X == 0) by (unfold X; destruct (Q.max_spec (river_water k - allowance k) 0) as [[A B]|[A B]]; rewrite B; lra). lra. }
  split; [|reflexivity].
  intros c Hc. unfold stock, k_with; cbn [k_tank k_ins]. rewrite cmp_sum by exact Hc.
  destruct (Hps c Hc) as (_ & P2 & _). rewrite P2, (D4 c Hc). ring.
Qed.

(* a river without upstream neighbours: the check is honest and the allowance is kept *)
Theorem river_alone_honest_and_safe k q k' r : kind_ok k -> 0 <= q -> 0 <= allowance k -> k_ins S k = [] ->
  rv_pull_set S P maxiter k q = Some (k', r) ->
  vol r == Qmin q (vol (rv_pull_check S P k None)) /\
  vol (stock k') == vol (stock k) - vol r /\
  (allowance k <= vol (stock k) -> allowance k <= vol (stock k')).
Proof.
  intros (Hn & Ho & Hi) Hq Hal Hins Hrun. unfold rv_pull_set in Hrun.
  pose proof (rv_pull_check_vol k (Some q)) as Hav. pose proof (rv_pull_check_vol k None) as Hav'.
  assert (Hup : rv_upstream S P k == 0) by (unfold rv_upstream; rewrite Hins; cbn; reflexivity).
  unfold river_water in *. rewrite Hup in *.
  set (avail := rv_pull_check S P k (Some q)) in *.
  pose proof (Hn SVol I) as Hs0; cbn [cmp] in Hs0. fold (stock k) in *.
  set (X := Qmax (vol (stock k) + 0 - allowance k) 0) in *.
  assert (HX : 0 <= X) by (unfold X; apply Q.le_max_r).
  assert (Hav0 : 0 <= vol avail) by (rewrite Hav; apply Q.min_glb; lra).
  pose proof (t_pull_vol (k_tank S k) (vol avail) Hav0 Hs0) as Hpv.
  pose proof (t_pull_spec (k_tank S k) (vol avail) SVol I Hn Hav0) as (_ & P2 & _). cbn [cmp] in P2.
  destruct (t_pull (k_tank S k) (vol avail)) as [t1 pulled] eqn:Etp. cbn [fst snd] in *.
  rewrite Hins in Hrun. cbn [pull_distributed pull_loop] in Hrun.
  destruct maxiter as [|mi]; cbn [pull_loop] in Hrun.
  - inversion Hrun; subst. unfold stock; cbn [k_with k_tank]. rewrite vol_sum. cbn [vol vzero].
    rewrite Hav', P2, Hpv, Hav. fold (stock k). unfold X.
    repeat split; minmax; lra.
  - change (c_avail (get_connected S P false (Some [T_RIVER; T_NODE]) [])) with (Qred 0) in Hrun.
    replace (Qltb eps (Qred 0)) with false in Hrun by (symmetry; unfold Qltb; destruct (Qlt_le_dec eps (Qred 0)) as [H|H]; [rewrite Qred_correct in H; pose proof eps_pos; lra | reflexivity]).
    rewrite andb_false_r in Hrun. inversion Hrun; subst. unfold stock; cbn [k_with k_tank]. rewrite vol_sum. cbn [vol vzero].
    rewrite Hav', P2, Hpv, Hav. fold (stock k). unfold X.
    repeat split; minmax; lra.
Qed.

(* ---------------- RiverReservoir: environmental release ---------------- *)
(* the release step takes min(outstanding, contents) from the reservoir, never more than the
   outstanding amount, all of it when it holds that much, and counts what went downstream *)
Theorem reservoir_release k k' : kind_ok k -> rr_satisfy_environmental S P maxiter k = Some k' ->
  let outstanding := Qmax (k_env S k - k_envsat S k) 0 in
  exists released back,
    released == Qmin outstanding (vol (stock k)) /\ 0 <= back <= released /\
    k_envsat S k' == k_envsat S k + (released - back) /\
    vol (stock k') == vol (stock k) - (released - back) /\
    sumvin S SVol (k_outs S k') == sumvin S SVol (k_outs S k) + (released - back).
Proof.
  intros (Hn & Ho & Hi) Hrun. cbn zeta. unfold rr_satisfy_environmental in Hrun.
  set (outstanding := Qmax (k_env S k - k_envsat S k) 0) in *.
  assert (Hout : 0 <= outstanding) by (unfold outstanding; apply Q.le_max_r).
  pose proof (Hn SVol I) as Hs0; cbn [cmp] in Hs0. fold (stock k) in *.
  pose proof (t_pull_vol (k_tank S k) outstanding Hout Hs0) as Hpv.
  pose proof (t_pull_nonneg (k_tank S k) outstanding Hn Hout) as [N1 N2].
  pose proof (t_pull_spec (k_tank S k) outstanding SVol I Hn Hout) as (_ & P2 & _). cbn [cmp] in P2.
  destruct (t_pull (k_tank S k) outstanding) as [t1 env] eqn:Etp. cbn [fst snd] in *.
  assert (Wenv : wet env) by (pose proof (t_pull_wet (k_tank S k) outstanding Hn Hout) as W; rewrite Etp in W; exact W).
  destruct (push_distributed S P maxiter None (k_outs S k) env) as [[[outs' reply] msg]|] eqn:Epd; [|discriminate].
  destruct (push_distributed_spec S P K wet_replies maxiter _ _ _ _ _ _ Ho Wenv Epd) as (D1 & D2 & D3 & D4 & _).
  pose proof (D3 SVol I) as R0; cbn [cmp] in R0. pose proof (D4 SVol I) as V0; cbn [cmp] in V0.
  destruct (t_push_forced t1 reply SVol I) as [F1 _]. cbn [cmp] in F1.
  destruct (t_push t1 reply true) as [t2 junk] eqn:Etf. cbn [fst] in F1.
  inversion Hrun; subst k'. clear Hrun.
  exists (vol env), (vol reply). unfold stock, k_with; cbn [k_tank k_envsat k_outs].
  rewrite Qred_correct. split; [rewrite Hpv; reflexivity|]. split; [lra|]. split; [reflexivity|].
  split; [rewrite F1, P2; ring | rewrite V0; ring].
Qed.

(* ---------------- conservation of the discharge functions (C01) ---------------- *)
(* Storage.distribute, Groundwater.distribute / infiltrate, River.distribute: what leaves the store is
   exactly what the out-arcs record; nothing else changes *)
Theorem discharge_conserves k ot amount k' : kind_ok k -> 0 <= amount ->
  discharge S P maxiter k ot amount = Some k' ->
  kind_ok k' /\
  (forall c, conserved c ->
     cmp c (stock k') + sumvin S c (k_outs S k') == cmp c (stock k) + sumvin S c (k_outs S k)) /\
  vol (stock k) - vol (stock k') <= amount /\ vol (stock k') <= vol (stock k) /\
  Forall2 (frame S ot) (k_outs S k) (k_outs S k') /\ k_ins S k' = k_ins S k.
Proof.
  intros (Hn & Ho & Hi) Ham Hrun. unfold discharge in Hrun.
  pose proof (t_pull_nonneg (k_tank S k) amount Hn Ham) as [N1 N2].
  pose proof (fun c Hc => t_pull_spec (k_tank S k) amount c Hc Hn Ham) as Hps.
  assert (Wout : wet (snd (t_pull (k_tank S k) amount))) by (apply t_pull_wet; assumption).
  destruct (t_pull (k_tank S k) amount) as [t1 out] eqn:Etp. cbn [fst snd] in *.
  destruct (push_distributed S P maxiter ot (k_outs S k) out) as [[[outs' retained] msg]|] eqn:Epd; [|discriminate].
  destruct (push_distributed_spec S P K wet_replies maxiter _ _ _ _ _ _ Ho Wout Epd) as (D1 & D2 & D3 & D4 & D5 & _).
  pose proof (fun c Hc => t_push_forced t1 retained c Hc) as Hf.
  destruct (t_push t1 retained true) as [t2 junk] eqn:Etf. cbn [fst snd] in Hf.
  inversion Hrun; subst k'. clear Hrun. unfold stock, kind_ok, k_with; cbn [k_tank k_outs k_ins].
  assert (Hst : forall c, conserved c -> cmp c (t_sto t2) == cmp c (t_sto (k_tank S k)) - cmp c out + cmp c retained).
  { intros c Hc. destruct (Hf c Hc) as [F1 _]. destruct (Hps c Hc) as (_ & P2 & _). rewrite F1, P2. ring. }
  split.
  { split; [|split; [exact D1 | exact Hi]]. intros c Hc. rewrite (Hst c Hc).
    destruct (Hps c Hc) as (P1 & _ & _). pose proof (D3 c Hc). pose proof (Hn c Hc). unfold stock in *. lra. }
  split; [intros c Hc; rewrite (Hst c Hc), (D4 c Hc); ring|].
  pose proof (Hst SVol I) as H0; cbn [cmp] in H0. pose proof (D3 SVol I) as R0; cbn [cmp] in R0.
  destruct (Hps SVol I) as (P1 & _ & P3); cbn [cmp] in P1, P3.
  split; [lra|]. split; [lra|]. split; [exact D5 | reflexivity].
Qed.

(* Reservoir.make_abstractions: what enters the store is exactly what the in-arcs record
   (suppliers hand over no pollutant mass without water: `wet got`) *)
Theorem abstraction_conserves k k' : kind_ok k ->
  (forall st' got msg, pull_distributed S P maxiter None (k_ins S k) (vol (t_get_excess (k_tank S k) None)) = Some (st', got, msg) -> wet got) ->
  rs_make_abstractions S P maxiter k = Some k' ->
  (forall c, conserved c ->
     cmp c (stock k') == cmp c (stock k) + (sumvin S c (k_ins S k') - sumvin S c (k_ins S k))) /\
  k_outs S k' = k_outs S k.
Proof.
  intros (Hn & Ho & Hi) Hwet Hrun. unfold rs_make_abstractions in Hrun.
  assert (Hw : 0 <= vol (t_get_excess (k_tank S k) None)) by (rewrite t_excess_vol; apply Q.le_max_r).
  destruct (pull_distributed S P maxiter None (k_ins S k) (vol (t_get_excess (k_tank S k) None))) as [[[ins' got] msg]|] eqn:Epd; [|discriminate].
  destruct (pull_distributed_spec S P K maxiter _ _ _ _ _ _ Hi Hw Epd) as (D1 & D2 & D3 & D4 & _).
  pose proof (Hwet _ _ _ eq_refl) as Wgot.
  pose proof (fun c Hc => t_push_conserves (k_tank S k) got c Hc Wgot) as Hcons.
  pose proof (fun c Hc => t_push_forced (fst (t_push (k_tank S k) got false)) (snd (t_push (k_tank S k) got false)) c Hc) as Hf.
  destruct (t_push (k_tank S k) got false) as [t1 spill] eqn:Etp. cbn [fst snd] in Hf, Hcons.
  destruct (t_push t1 spill true) as [t2 junk] eqn:Etf. cbn [fst] in Hf.
  inversion Hrun; subst k'. clear Hrun. unfold stock, k_with; cbn [k_tank k_outs k_ins].
  split; [|reflexivity]. intros c Hc. destruct (Hf c Hc) as [F1 _]. rewrite F1, (D4 c Hc).
  pose proof (Hcons c Hc). lra.
Qed.
End KindLaws.
