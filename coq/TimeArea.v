(* TimeArea.v — executable model of the two node classes built on a queue tank:
     wsimod/nodes/sewer.py    Sewer            (sewer_tank : QueueTank, pipe_time, pipe_timearea)
     wsimod/nodes/storage.py  QueueGroundwater (tank : QueueTank / DecayQueueTank, timearea)
   A node is its queue tank (QTank.v), the stars of its out- and in-arcs (Distrib.v), its fixed pipe delay and its
   time-area diagram (delay, fraction of the flow) in the order of the dict.  No proofs here (TimeAreaLaws.v). *)
From Coq Require Import QArith Qminmax List Bool Arith.
From WSI Require Import Vqip Pow Tank Arc QTank Distrib Kinds.
Import ListNotations.
Open Scope Q_scope.

Definition T_LAND : nat := 6.

Section TimeArea.
Variable S : Type.
Variable P : port S.
Variable maxiter : nat.

Record qnode := mkQN {
  qn_t : qtank;
  qn_outs : star S;
  qn_ins : star S;
  qn_pt : nat;                  (* Sewer.pipe_time *)
  qn_ta : list (nat * Q)        (* Sewer.pipe_timearea / QueueGroundwater.timearea *)
}.
Definition qn_with (n : qnode) (t : qtank) (outs : star S) : qnode := mkQN t outs (qn_ins n) (qn_pt n) (qn_ta n).
Definition qn_set_t (n : qnode) (t : qtank) : qnode := qn_with n t (qn_outs n).

(* push_set_land / push_set_timearea: every fraction of the flow enters the tank with its own delay; what the tank
   hands back is summed up *)
Fixpoint ta_push (t : qtank) (v : vqip) (ta : list (nat * Q)) (reply : vqip) : qtank * vqip :=
  match ta with
  | [] => (t, reply)
  | (time, f) :: r =>
      let '(t', r_) := qt_push t (vchange v (vol v * f)) time false in
      ta_push t' v r (vsum reply r_)
  end.
Definition qn_push_timearea (n : qnode) (v : vqip) : qnode * vqip :=
  let '(t', r) := ta_push (qn_t n) v (qn_ta n) vzero in (qn_set_t n t', r).

(* Tank.get_excess on the declared contents of the queue tank *)
Definition qn_excess (n : qnode) (ov : option Q) : vqip :=
  let s := qt_s (qn_t n) in
  let room := Qmax (s_cap s - vol (s_sto s)) 0 in
  vchange (s_sto s) (match ov with Some q => Qmin q room | None => room end).

(* ---------------- Sewer ---------------- *)
Definition sw_push_set_sewer (n : qnode) (v : vqip) : qnode * vqip :=
  let '(t', r) := qt_push (qn_t n) v (qn_pt n) false in (qn_set_t n t', r).
Definition sw_push_check (n : qnode) (ov : option vqip) : vqip :=
  let e := qn_excess n None in
  match ov with None => e | Some v => vchange e (Qmin (vol e) (vol v)) end.
(* Tank.pull_ponded through QueueTank.pull_storage: what stands above the capacity, taken from what has arrived *)
Definition qt_pull_ponded (t : qtank) : qtank * vqip :=
  let s := qt_s t in
  let ponded := Qmax (vol (s_sto s) - s_cap s) 0 in
  qt_pull t ponded.
Definition sw_make_discharge (n : qnode) : option qnode :=
  let t := qn_t n in
  let '(l1, s1, _) := l_update qts qt_port (qt_l t) (qt_s t) in
  let t1 := mkQT s1 l1 in
  match push_distributed S P maxiter None (qn_outs n) (s_act s1) with
  | None => None
  | Some (outs1, remaining, _) =>
      let sent := vsub (s_act s1) remaining in
      let '(t2, _) := qt_pull_exact t1 sent in
      let '(t3, ponded) := qt_pull_ponded t2 in
      if Qltb eps (vol ponded) then
        match push_distributed S P maxiter (Some [T_LAND]) outs1 ponded with
        | None => None
        | Some (outs2, back, _) =>
            let '(t4, _) := qt_push t3 back 0 true in
            Some (qn_with n t4 outs2)
        end
      else Some (qn_with n t3 outs1)
  end.
Definition sw_override (n : qnode) (cap : Q) (pt : nat) (ta : list (nat * Q)) : qnode :=
  let s := qt_s (qn_t n) in
  mkQN (mkQT (mkQS cap (s_sto s) (s_sto_ s) (s_act s)) (qt_l (qn_t n))) (qn_outs n) (qn_ins n) pt ta.

(* ---------------- QueueGroundwater ---------------- *)
Definition qg_push_check (n : qnode) (ov : option vqip) : vqip := qn_excess n (option_map vol ov).
Definition qg_pull_check (n : qnode) (ov : option Q) : vqip :=
  let act := s_act (qt_s (qn_t n)) in
  match ov with None => act | Some q => vchange act (Qmin q (vol act)) end.
(* pull_set_active: the same share of every bucket of the queue and of what has arrived *)
Fixpoint pull_buckets (b : list vqip) (share : Q) (pulled : vqip) : list vqip * vqip :=
  match b with
  | [] => ([], pulled)
  | x :: r =>
      let p := vchange x (vol x * share) in
      let '(r', pulled') := pull_buckets r share (vsum pulled p) in
      (vsub x p :: r', pulled')
  end.
Definition qg_pull_set (n : qnode) (q : Q) : qnode * vqip :=
  let t := qn_t n in let s := qt_s t in let l := qt_l t in
  let total := vol (s_sto s) in
  let pull := Qmin total q in
  if Qltb pull eps then (n, vzero)
  else
    let share := pull / total in
    let '(b', pulled) := pull_buckets (l_b l) share vzero in
    let ap := vchange (s_act s) (vol (s_act s) * share) in
    let pulled' := vsum pulled ap in
    let l' := mkAlt (l_a l) (l_n l) b' (l_qs l) (l_qs_ l) (l_dec l) (l_decayed l) (l_T l) in
    (qn_set_t n (mkQT (mkQS (s_cap s) (vsub (s_sto s) pulled') (s_sto_ s) (vsub (s_act s) ap)) l'), pulled').
Definition qg_distribute (n : qnode) : option qnode :=
  let t := qn_t n in
  let '(l1, s1, _) := l_update qts qt_port (qt_l t) (qt_s t) in
  let t1 := mkQT s1 l1 in
  match push_distributed S P maxiter None (qn_outs n) (s_act s1) with
  | None => None
  | Some (outs1, remaining, _) =>
      (* exactly what was not handed back is taken out (a remainder that comes back over a travel-time arc need not
         have the tank's composition) *)
      let sent := vsub (s_act s1) remaining in
      let '(t2, _) := qt_pull_exact t1 sent in
      Some (qn_with n t2 outs1)
  end.
Definition qg_override (n : qnode) (cap : Q) (ta : list (nat * Q)) : qnode := sw_override n cap (qn_pt n) ta.

(* reinit: Sewer.reinit empties the queue tank; Storage.reinit (QueueGroundwater) also puts the initial storage back, all of
   it arrived *)
Definition qn_reinit (n : qnode) (init : vqip) : qnode :=
  let t := qt_reinit (qn_t n) in
  qn_set_t n (mkQT (mkQS (s_cap (qt_s t)) init init init) (qt_l t)).

(* close-out (temperature T is read by a decaying tank) *)
Definition qn_end (n : qnode) (T : Q) : qnode := qn_set_t n (qt_end (qt_set_T (qn_t n) T)).

End TimeArea.
