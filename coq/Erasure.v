(* Erasure.v — water quantity does not depend on pollutants (C20), component
   level: the VOLUME of everything a store operation returns or keeps is a
   function of the volumes (and hydraulic parameters) alone.  `same_vol` relates
   two stores / fluxes that agree in volume and may differ arbitrarily in their
   pollutant lists (different pollutant sets, concentrations, qualities). *)
From Coq Require Import QArith Qminmax Lqa List Bool Setoid Morphisms.
From WSI Require Import Vqip Pow Tank Arc QTank Run TankLaws ArcLaws.
Import ListNotations.
Open Scope Q_scope.

Definition same_vol (a b : vqip) : Prop := vol a == vol b.
Definition same_tank (s t : tank) : Prop :=
  t_cap s == t_cap t /\ same_vol (t_sto s) (t_sto t) /\ t_res s == t_res t.

Lemma sv_change a b x y : x == y -> same_vol (vchange a x) (vchange b y).
Proof. intros H. unfold same_vol. rewrite !vol_change. exact H. Qed.
Lemma sv_sum a b c d : same_vol a c -> same_vol b d -> same_vol (vsum a b) (vsum c d).
Proof. unfold same_vol. intros H1 H2. rewrite !vol_sum, H1, H2. reflexivity. Qed.
Lemma sv_sub a b c d : same_vol a c -> same_vol b d -> same_vol (vsub a b) (vsub c d).
Proof. unfold same_vol. intros H1 H2. rewrite !vol_sub, H1, H2. reflexivity. Qed.

Global Instance Qmax_proper : Proper (Qeq ==> Qeq ==> Qeq) Qmax.
Proof. intros a b H c d H'. apply Q.max_compat; assumption. Qed.
Global Instance Qmin_proper : Proper (Qeq ==> Qeq ==> Qeq) Qmin.
Proof. intros a b H c d H'. apply Q.min_compat; assumption. Qed.

Lemma sv_excess s t ov : same_tank s t -> same_vol (t_get_excess s ov) (t_get_excess t ov).
Proof.
  intros (Hc & Hs & _). unfold same_vol in *. rewrite !t_excess_vol. destruct ov; rewrite Hc, Hs; reflexivity.
Qed.
Lemma sv_avail s t ov : same_tank s t -> same_vol (t_get_avail s ov) (t_get_avail t ov).
Proof.
  intros (_ & Hs & _). unfold same_vol, t_get_avail in *. destruct ov; [rewrite !vol_change, Hs; reflexivity | exact Hs].
Qed.

(* unforced and forced pushes: level after and remainder agree in volume *)
Theorem sv_push s t v w force : same_tank s t -> same_vol v w ->
  same_tank (fst (t_push s v force)) (fst (t_push t w force)) /\
  same_vol (snd (t_push s v force)) (snd (t_push t w force)).
Proof.
  intros (Hc & Hs & Hr) Hv. unfold same_vol in *. destruct force.
  - unfold t_push, same_tank, same_vol; cbn [fst snd t_with t_cap t_sto t_res]. rewrite !vol_sum, Hs, Hv.
    repeat split; try assumption; reflexivity.
  - split.
    + unfold same_tank, same_vol. rewrite !t_push_sto_vol.
      unfold t_push; cbn [fst t_with t_cap t_res]. rewrite Hc, Hs, Hv. repeat split; try assumption; reflexivity.
    + unfold same_vol. rewrite !t_push_reply_vol, Hc, Hs, Hv. reflexivity.
Qed.

Theorem sv_pull s t q : same_tank s t ->
  same_tank (fst (t_pull s q)) (fst (t_pull t q)) /\ same_vol (snd (t_pull s q)) (snd (t_pull t q)).
Proof.
  intros (Hc & Hs & Hr). unfold same_vol in *. unfold t_pull.
  assert (Eb : Qeq_bool (vol (t_sto s)) 0 = Qeq_bool (vol (t_sto t)) 0).
  { destruct (Qeq_bool (vol (t_sto s)) 0) eqn:E1, (Qeq_bool (vol (t_sto t)) 0) eqn:E2; try reflexivity.
    - apply Qeq_bool_iff in E1. rewrite Hs in E1. apply Qeq_bool_iff in E1. congruence.
    - apply Qeq_bool_iff in E2. rewrite <- Hs in E2. apply Qeq_bool_iff in E2. congruence. }
  rewrite Eb. destruct (Qeq_bool (vol (t_sto t)) 0).
  - cbn [fst snd]. split; [repeat split; assumption | reflexivity].
  - cbn [fst snd]. unfold same_tank, same_vol; cbn [t_with t_cap t_sto t_res].
    rewrite !vol_sub, !vol_change, Hs. repeat split; try assumption; reflexivity.
Qed.

Theorem sv_evaporate s t e : same_tank s t ->
  same_tank (fst (t_evaporate s e)) (fst (t_evaporate t e)) /\ snd (t_evaporate s e) == snd (t_evaporate t e).
Proof.
  intros (Hc & Hs & Hr). unfold same_vol in *. unfold t_evaporate; cbn [fst snd].
  unfold same_tank, same_vol; cbn [t_with t_cap t_sto t_res]. rewrite !vol_distill, !Qred_correct, Hs.
  repeat split; try assumption; reflexivity.
Qed.

Theorem sv_ponded s t : same_tank s t ->
  same_tank (fst (t_pull_ponded s)) (fst (t_pull_ponded t)) /\ same_vol (snd (t_pull_ponded s)) (snd (t_pull_ponded t)).
Proof.
  intros H. pose proof H as (Hc & Hs & Hr). unfold same_vol in Hs. unfold t_pull_ponded.
  assert (E : Qmax (vol (t_sto s) - t_cap s) 0 == Qmax (vol (t_sto t) - t_cap t) 0) by (rewrite Hs, Hc; reflexivity).
  (* t_pull only looks at its request through Qmin, which respects == *)
  unfold t_pull.
  assert (Eb : Qeq_bool (vol (t_sto s)) 0 = Qeq_bool (vol (t_sto t)) 0).
  { destruct (Qeq_bool (vol (t_sto s)) 0) eqn:E1, (Qeq_bool (vol (t_sto t)) 0) eqn:E2; try reflexivity.
    - apply Qeq_bool_iff in E1. rewrite Hs in E1. apply Qeq_bool_iff in E1. congruence.
    - apply Qeq_bool_iff in E2. rewrite <- Hs in E2. apply Qeq_bool_iff in E2. congruence. }
  rewrite Eb. destruct (Qeq_bool (vol (t_sto t)) 0).
  - cbn [fst snd]. split; [repeat split; assumption | reflexivity].
  - cbn [fst snd]. unfold same_tank, same_vol; cbn [t_with t_cap t_sto t_res].
    rewrite !vol_sub, !vol_change, E, Hs. repeat split; try assumption; reflexivity.
Qed.

(* close-out changes no volume at all, whatever decays *)
Theorem sv_end s t T1 T2 : same_tank s t -> same_tank (t_end s T1) (t_end t T2).
Proof.
  intros (Hc & Hs & Hr). unfold same_vol in Hs. unfold t_end, same_tank, same_vol.
  destruct (t_dec s) as [|p d]; destruct (t_dec t) as [|p' d'];
    repeat match goal with |- context [vdecay ?d ?T ?v] =>
      let H := fresh "V" in pose proof (vdecay_vol d T v) as [H _]; destruct (vdecay d T v) end;
    cbn [t_cap t_sto t_res fst] in *; repeat split; try assumption; try lra.
Qed.

(* ---------------- arcs between volume-determined end nodes ---------------- *)
Section ArcErasure.
Variables S S' : Type.
Variable P : port S.
Variable P' : port S'.
Variable R : S -> S' -> Prop.      (* "same water, possibly different pollutants" on the end nodes *)

Definition opt_sv (a b : option vqip) : Prop :=
  match a, b with Some x, Some y => same_vol x y | None, None => True | _, _ => False end.
Definition opt_q (a b : option Q) : Prop :=
  match a, b with Some x, Some y => x == y | None, None => True | _, _ => False end.

(* the end nodes decide volumes from volumes *)
Record vol_determined : Prop := mkVD {
  vd_push_check : forall s s' ov ov', R s s' -> opt_sv ov ov' -> same_vol (p_push_check P s ov) (p_push_check P' s' ov');
  vd_pull_check : forall s s' ov ov', R s s' -> opt_q ov ov' -> same_vol (p_pull_check P s ov) (p_pull_check P' s' ov');
  vd_push_set : forall s s' v v', R s s' -> same_vol v v' ->
     R (fst (p_push_set P s v)) (fst (p_push_set P' s' v')) /\ same_vol (snd (p_push_set P s v)) (snd (p_push_set P' s' v'));
  vd_pull_set : forall s s' q q', R s s' -> q == q' ->
     R (fst (p_pull_set P s q)) (fst (p_pull_set P' s' q')) /\ same_vol (snd (p_pull_set P s q)) (snd (p_pull_set P' s' q'))
}.
Hypothesis VD : vol_determined.

Definition same_arc (a b : arc) : Prop :=
  a_cap a == a_cap b /\ a_fin a == a_fin b /\ a_fout a == a_fout b /\
  same_vol (a_vin a) (a_vin b) /\ same_vol (a_vout a) (a_vout b).

Lemma sv_excess_push a b s s' ov ov' : same_arc a b -> R s s' -> opt_sv ov ov' ->
  same_vol (a_excess_push S P a s ov) (a_excess_push S' P' b s' ov').
Proof.
  intros (Hc & Hf & _) Hr Ho. unfold same_vol. rewrite !excess_push_vol.
  pose proof (vd_push_check VD s s' ov ov' Hr Ho) as H. unfold same_vol in H. rewrite Hc, Hf, H. reflexivity.
Qed.
Lemma sv_excess_pull a b s s' ov ov' : same_arc a b -> R s s' -> opt_q ov ov' ->
  same_vol (a_excess_pull S P a s ov) (a_excess_pull S' P' b s' ov').
Proof.
  intros (Hc & Hf & _) Hr Ho. unfold same_vol. rewrite !excess_pull_vol.
  pose proof (vd_pull_check VD s s' ov ov' Hr Ho) as H. unfold same_vol in H. rewrite Hc, Hf, H. reflexivity.
Qed.

Lemma sv_record a b v w : same_arc a b -> same_vol v w -> same_arc (a_record a v) (a_record b w).
Proof.
  intros (Hc & Hf & Hfo & Hvi & Hvo) Hv. unfold same_vol in *. unfold same_arc, same_vol, a_record; cbn [a_cap a_fin a_fout a_vin a_vout].
  rewrite !Qred_correct, !vol_sum, Hf, Hv, Hvi. repeat split; try assumption; reflexivity.
Qed.

Theorem sv_arc_push a b s s' v w force : same_arc a b -> R s s' -> same_vol v w ->
  let r1 := a_send_push S P a s v force in let r2 := a_send_push S' P' b s' w force in
  same_arc (fst (fst r1)) (fst (fst r2)) /\ R (snd (fst r1)) (snd (fst r2)) /\ same_vol (snd r1) (snd r2).
Proof.
  intros Ha Hr Hv. cbn zeta. unfold a_send_push.
  set (np1 := if force then vzero else vchange v (Qmax (vol v - vol (a_excess_push S P a s (Some v))) 0)).
  set (np2 := if force then vzero else vchange w (Qmax (vol w - vol (a_excess_push S' P' b s' (Some w))) 0)).
  assert (Hnp : same_vol np1 np2).
  { unfold np1, np2. destruct force; [reflexivity|]. apply sv_change.
    pose proof (sv_excess_push a b s s' (Some v) (Some w) Ha Hr Hv) as He. unfold same_vol in *. rewrite He, Hv. reflexivity. }
  pose proof (sv_sub v np1 w np2 Hv Hnp) as Hv1.
  destruct (vd_push_set VD s s' (vsub v np1) (vsub w np2) Hr Hv1) as [Hs Hrep].
  destruct (p_push_set P s (vsub v np1)) as [s1 rep1]. destruct (p_push_set P' s' (vsub w np2)) as [s2 rep2].
  cbn [fst snd] in *.
  split; [apply sv_record; [exact Ha | apply sv_sub; assumption]|].
  split; [exact Hs | apply sv_sum; assumption].
Qed.

Theorem sv_arc_pull a b s s' q q' : same_arc a b -> R s s' -> q == q' ->
  let r1 := a_send_pull S P a s q in let r2 := a_send_pull S' P' b s' q' in
  same_arc (fst (fst r1)) (fst (fst r2)) /\ R (snd (fst r1)) (snd (fst r2)) /\ same_vol (snd r1) (snd r2).
Proof.
  intros Ha Hr Hq. cbn zeta. unfold a_send_pull.
  pose proof (sv_excess_pull a b s s' (Some q) (Some q') Ha Hr Hq) as He. unfold same_vol in He.
  assert (Hvol : Qred (q - Qmax (q - vol (a_excess_pull S P a s (Some q))) 0) ==
                 Qred (q' - Qmax (q' - vol (a_excess_pull S' P' b s' (Some q'))) 0)).
  { rewrite !Qred_correct, He, Hq. reflexivity. }
  destruct (vd_pull_set VD s s' _ _ Hr Hvol) as [Hs Hg].
  destruct (p_pull_set P s _) as [s1 g1]. destruct (p_pull_set P' s' _) as [s2 g2]. cbn [fst snd] in *.
  split; [apply sv_record; assumption|]. split; assumption.
Qed.
End ArcErasure.

(* tank-backed end nodes are volume-determined *)
Definition same_nb (x y : nb) : Prop :=
  match x, y with
  | NT s, NT t => same_tank s t
  | NS s, NS t => sc_lim s = sc_lim t /\ sc_acc s = sc_acc t /\ sc_i s = sc_i t /\ same_vol (sc_comp s) (sc_comp t)
  | _, _ => False
  end.
Definition same_ends (s t : nb * nb) : Prop := same_nb (fst s) (fst t) /\ same_nb (snd s) (snd t).

Lemma nbport_vol_determined : vol_determined (nb * nb) (nb * nb) nbport nbport same_ends.
Proof.
  constructor.
  - intros [i o] [i' o'] ov ov' [Hi Ho] Hov; cbn [nbport p_push_check snd fst] in *.
    destruct o as [t|sc], o' as [t'|sc']; cbn [same_nb] in Ho; try (exfalso; exact Ho); cbn [nb_push_check].
    + destruct ov as [x|], ov' as [y|]; cbn [opt_sv opt_q] in Hov; try (exfalso; exact Hov); cbn [option_map].
      * unfold same_vol in *. rewrite !t_excess_vol. destruct Ho as (Hc & Hs & _). unfold same_vol in Hs. rewrite Hc, Hs, Hov. reflexivity.
      * apply sv_excess; exact Ho.
    + destruct Ho as (L & A & I0 & _). unfold same_vol; cbn [vol]. rewrite !Qred_correct, L, I0.
      destruct ov as [x|], ov' as [y|]; cbn [opt_sv opt_q] in Hov; try (exfalso; exact Hov); [unfold same_vol in Hov; rewrite Hov|]; reflexivity.
  - intros [i o] [i' o'] ov ov' [Hi Ho] Hov; cbn [nbport p_pull_check fst snd] in *.
    destruct i as [t|sc], i' as [t'|sc']; cbn [same_nb] in Hi; try (exfalso; exact Hi); cbn [nb_pull_check].
    + destruct Hi as (Hc & Hs & Hr). unfold same_vol in *. unfold t_get_avail.
      destruct ov as [x|], ov' as [y|]; cbn [opt_sv opt_q] in Hov; try (exfalso; exact Hov); [rewrite !vol_change, Hs, Hov; reflexivity | exact Hs].
    + destruct Hi as (L & A & I0 & _). unfold same_vol; cbn [vol]. rewrite !Qred_correct, L, I0.
      destruct ov as [x|], ov' as [y|]; cbn [opt_sv opt_q] in Hov; try (exfalso; exact Hov); [rewrite Hov|]; reflexivity.
  - intros [i o] [i' o'] v v' [Hi Ho] Hv; cbn [nbport p_push_set fst snd] in *.
    destruct o as [t|sc], o' as [t'|sc']; cbn [same_nb] in Ho; try (exfalso; exact Ho); cbn [nb_push_set].
    + destruct (sv_push t t' v v' false Ho Hv) as [H1 H2].
      destruct (t_push t v false) as [t1 r1]. destruct (t_push t' v' false) as [t2 r2]. cbn [fst snd] in *.
      split; [split; [exact Hi | exact H1] | exact H2].
    + destruct Ho as (L & A & I0 & C0). cbn [fst snd]. split.
      * split; [exact Hi|]. cbn [snd same_nb sc_lim sc_acc sc_i sc_comp]. repeat split; try assumption. congruence.
      * unfold same_vol in *. rewrite !vol_change, A, I0, Hv. reflexivity.
  - intros [i o] [i' o'] q q' [Hi Ho] Hq; cbn [nbport p_pull_set fst snd] in *.
    destruct i as [t|sc], i' as [t'|sc']; cbn [same_nb] in Hi; try (exfalso; exact Hi); cbn [nb_pull_set].
    + (* t_pull reads its request only through Qmin *)
      pose proof Hi as (Hc & Hs & Hr). unfold same_vol in Hs. unfold t_pull.
      assert (Eb : Qeq_bool (vol (t_sto t)) 0 = Qeq_bool (vol (t_sto t')) 0).
      { destruct (Qeq_bool (vol (t_sto t)) 0) eqn:E1, (Qeq_bool (vol (t_sto t')) 0) eqn:E2; try reflexivity.
        - apply Qeq_bool_iff in E1. rewrite Hs in E1. apply Qeq_bool_iff in E1. congruence.
        - apply Qeq_bool_iff in E2. rewrite <- Hs in E2. apply Qeq_bool_iff in E2. congruence. }
      rewrite Eb. destruct (Qeq_bool (vol (t_sto t')) 0); cbn [fst snd].
      * split; [split; [exact Hi | exact Ho] | reflexivity].
      * split; [split; [|exact Ho] | unfold same_vol; rewrite !vol_change, Hs, Hq; reflexivity].
        unfold same_nb, same_tank, same_vol; cbn [fst t_with t_cap t_sto t_res].
        rewrite !vol_sub, !vol_change, Hs, Hq. repeat split; try assumption; reflexivity.
    + destruct Hi as (L & A & I0 & C0). cbn [fst snd]. split.
      * split; [|exact Ho]. cbn [fst same_nb sc_lim sc_acc sc_i sc_comp]. repeat split; try assumption. congruence.
      * unfold same_vol in *. rewrite !vol_change, A, I0, Hq. reflexivity.
Qed.
