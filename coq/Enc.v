(* Enc.v — encoding of model values as lists of integers for the
   correspondence check (compared exactly with the implementation's values). *)
From Coq Require Import QArith List ZArith.
From WSI Require Import Vqip.
Import ListNotations.
Open Scope Q_scope.

Definition encq (q : Q) : list Z := let r := Qred q in [Qnum r; Zpos (Qden r)].
Definition encvec (n : nat) (l : vec) : list Z := flat_map (fun k => encq (get l k)) (seq 0 n).
Definition encv (na nn : nat) (v : vqip) : list Z :=
  encq (vol v) ++ encvec na (adds v) ++ encvec nn (nons v).
(* canonical: the qualities of a flux with zero volume are unobservable *)
Definition encvc (na nn : nat) (v : vqip) : list Z :=
  if Qeq_bool (vol v) 0 then encv na nn (mkV (vol v) (adds v) []) else encv na nn v.
Definition encb (b : bool) : list Z := [if b then 1%Z else 0%Z].
Definition encn (n : nat) : list Z := [Z.of_nat n].
