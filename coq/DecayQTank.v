(* DecayQTank.v — the ledger of EVERY queue tank, decaying or not (QueueTank, DecayQueueTank; hence
   Sewer and QueueGroundwater stores): for every sequence of pushes (any travel time, forced or
   not, wet offers), pulls, exact pulls, checks, temperature settings and close-outs,

        what the tank declares to hold  ==  what has arrived + what is in transit inside it
                                            + the decay its queue has applied and not yet reported

   for volume and every additive pollutant (for a non-decaying tank the last term is zero).  At a
   close-out a decaying tank takes the pending decay off what it declares and its queue reports
   the decay of the close-out itself, which is then pending in turn (C02 / C03 / C11 for the one
   store class the component theorems of QTankLaws.v - `plain` tanks only - did not reach). *)
From Coq Require Import QArith Qminmax Lqa List Bool Arith.
From WSI Require Import Vqip Pow Tank Arc QTank TankLaws QTankLaws DecayStores.
Import ListNotations.
Open Scope Q_scope.

Definition qledger (t : qtank) : Prop :=
  forall c, conserved c ->
    cmp c (s_sto (qt_s t)) == cmp c (s_act (qt_s t)) + csum c (l_b (qt_l t)) + cmp c (l_decayed (qt_l t)).
(* a plain tank's queue never reports decay *)
Definition plain_quiet (t : qtank) : Prop := l_dec (qt_l t) = [] -> forall c, cmp c (l_decayed (qt_l t)) == 0.

Lemma csum_head c b : csum c b == cmp c (bget b 0) + csum c (match b with [] => [] | _ :: r => vzero :: r end).
Proof. destruct b as [|x r]; cbn [csum bget nth]; rewrite ?cmp_zero; ring. Qed.

(* delivering the due bucket to the tank: nothing is handed back, the bucket's content becomes available *)
Lemma l_update_qt (l : altarc) (s : qts) :
  let '(l', s', back) := l_update qts qt_port l s in
  back = vzero /\ s_sto s' = s_sto s /\ s_sto_ s' = s_sto_ s /\ s_cap s' = s_cap s /\
  l_dec l' = l_dec l /\ l_decayed l' = l_decayed l /\ l_T l' = l_T l /\
  forall c, conserved c -> cmp c (s_act s') + csum c (l_b l') == cmp c (s_act s) + csum c (l_b l).
Proof.
  unfold l_update. cbn [qt_port p_push_set]. cbn [fst snd l_b l_dec l_decayed l_T s_sto s_sto_ s_cap s_act].
  repeat split. intros c Hc. rewrite cmp_sum by exact Hc. rewrite (csum_head c (l_b l)). ring.
Qed.

Lemma qt_push_ledger t v time force : wet v -> qledger t -> qledger (fst (qt_push t v time force)).
Proof.
  intros Hw L c Hc. unfold qt_push. destruct force.
  - cbn [fst qt_s qt_l s_sto s_act]. rewrite !cmp_sum by exact Hc. rewrite (L c Hc). ring.
  - unfold l_send_push. destruct (Qltb (vol v) eps).
    + (* too little to queue: handed back whole, nothing enters *)
      cbn [fst qt_s qt_l s_sto s_act s_cap s_sto_]. rewrite cmp_sum by exact Hc.
      assert (Z : cmp c (vchange v (vol v - vol v)) == 0).
      { pose proof (change_split_wet c v (vol v) Hc Hw) as H1.
        assert (E : cmp c (vchange v (vol v)) == cmp c v).
        { destruct (cmp_change_cases c v (vol v) Hc) as [[Hp E]|[Hp E]]; rewrite E; [field; lra|].
          destruct c as [|k|k]; [cbn [cmp]; lra | | destruct Hc]. cbn [cmp]. rewrite (proj2 Hw Hp k). ring. }
        lra. }
      rewrite Z, (L c Hc). ring.
    + set (np := vchange v (Qmax (vol v - vol (a_excess_push qts qt_port (l_a (qt_l t)) (qt_s t) (Some v))) 0)).
      set (l1 := l_enter (qt_l t) (time + l_n (qt_l t)) (vsub v np)).
      pose proof (l_update_qt l1 (qt_s t)) as HU.
      destruct (l_update qts qt_port l1 (qt_s t)) as [[l2 s2] back].
      destruct HU as (-> & Hs & _ & _ & _ & Hd2 & _ & Hq).
      cbn [fst qt_s qt_l s_sto s_act s_cap s_sto_ l_b l_decayed]. rewrite cmp_sum by exact Hc.
      rewrite Hs, Hd2.
      pose proof (l_enter_decay (qt_l t) (time + l_n (qt_l t)) (vsub v np) c Hc) as HE. fold l1 in HE.
      pose proof (Hq c Hc) as Hq'. rewrite (L c Hc).
      (* what enters the declared storage is the offer minus what is handed back = v - np *)
      assert (Hin : cmp c (vchange v (vol v - vol (vsum np vzero))) == cmp c (vsub v np)).
      { rewrite cmp_sub by exact Hc.
        set (X := Qmax (vol v - vol (a_excess_push qts qt_port (l_a (qt_l t)) (qt_s t) (Some v))) 0) in *.
        assert (Hv : vol (vsum np vzero) == X).
        { rewrite vol_sum. unfold vzero; cbn [vol]. unfold np. rewrite vol_change. ring. }
        rewrite (vchange_ext v _ (vol v - X) c) by (rewrite Hv; reflexivity).
        pose proof (change_split_wet c v X Hc Hw) as H1. fold np in H1. lra. }
      rewrite Hin. lra.
Qed.

Lemma qt_pull_ledger t q : qledger t -> qledger (fst (qt_pull t q)).
Proof.
  intros L c Hc. unfold qt_pull. cbn [fst qt_s qt_l s_sto s_act]. rewrite !cmp_sub by exact Hc. rewrite (L c Hc). ring.
Qed.
Lemma qt_pull_exact_ledger t v : qledger t -> qledger (fst (qt_pull_exact t v)).
Proof.
  intros L c Hc. unfold qt_pull_exact. cbn [fst qt_s qt_l s_sto s_act]. rewrite !cmp_sub by exact Hc. rewrite (L c Hc). ring.
Qed.

Lemma qt_end_ledger t T : qledger t -> plain_quiet t -> qledger (qt_end (qt_set_T t T)) /\ plain_quiet (qt_end (qt_set_T t T)).
Proof.
  intros L Q. unfold qt_end, qt_set_T, l_set_T. cbn [qt_l qt_s l_dec].
  destruct (l_dec (qt_l t)) as [|p d] eqn:Ed.
  - (* plain: shift, then deliver *)
    match goal with |- context [l_update qts qt_port ?L ?S] =>
      set (l1 := L); pose proof (l_update_qt l1 S) as HU; destruct (l_update qts qt_port l1 S) as [[l2 s2] back] end.
    destruct HU as (_ & Hs & _ & _ & Hdec & Hd2 & _ & Hq).
    assert (D1 : l_decayed l1 = l_decayed (qt_l t)) by reflexivity.
    assert (B1 : forall c, conserved c -> csum c (l_b l1) == csum c (l_b (qt_l t))).
    { intros c Hc. unfold l1, l_end. cbn [l_dec l_b].
      rewrite csum_snoc_zero. cbn [csum]. rewrite cmp_sum by exact Hc. rewrite (csum_tl2 c (l_b (qt_l t))). ring. }
    split.
    + intros c Hc. cbn [qt_s qt_l s_sto s_act]. rewrite Hs, Hd2, D1. pose proof (Hq c Hc). rewrite (L c Hc), <- (B1 c Hc). lra.
    + intros _ c. cbn [qt_l]. rewrite Hd2, D1. apply Q. exact Ed.
  - (* decaying: the pending decay comes off what is declared; the close-out decay of the queue is pending next;
       the due bucket is released *)
    match goal with |- context [l_update qts qt_port (l_end ?L0) ?S] =>
      pose proof (l_update_qt (l_end L0) S) as HU; destruct (l_update qts qt_port (l_end L0) S) as [[l2 s2] back];
      set (l0 := L0) in *; set (l1 := l_end l0) in * end.
    destruct HU as (_ & Hs & _ & _ & Hdec & Hd2 & _ & Hq).
    assert (Hne : l_dec l0 <> []) by (unfold l0; cbn [l_dec]; try rewrite Ed; discriminate).
    split.
    + intros c Hc. cbn [qt_s qt_l]. rewrite Hs, Hd2. cbn [s_sto]. rewrite cmp_sub by exact Hc.
      pose proof (l_end_decay l0 c Hc Hne) as HE. fold l1 in HE.
      pose proof (Hq c Hc) as HQ. cbn [s_act] in HQ.
      assert (B0 : csum c (l_b l0) == csum c (l_b (qt_l t))) by reflexivity.
      assert (D0 : cmp c (l_decayed l0) == cmp c (l_decayed (qt_l t))) by reflexivity.
      rewrite (L c Hc). lra.
    + intros E. exfalso. cbn [qt_l] in E. rewrite Hdec in E. unfold l1, l_end in E. cbn [l_dec] in E.
      unfold l0 in E. cbn [l_dec] in E. try rewrite Ed in E. discriminate.
Qed.

(* re-initialised: nothing declared, nothing arrived, nothing in transit, nothing to report *)
Lemma qt_reinit_ledger t : qledger (qt_reinit t) /\ plain_quiet (qt_reinit t).
Proof.
  split.
  - intros c Hc. unfold qt_reinit, l_reinit. cbn [qt_s qt_l s_sto s_act l_b l_decayed csum]. rewrite !cmp_zero. ring.
  - intros _ c. unfold qt_reinit, l_reinit. cbn [qt_l l_decayed]. apply cmp_zero.
Qed.

(* every operation sequence: the invariant in every reachable state *)
Definition qop_wet (o : qop) : Prop := match o with QPush v _ _ => wet v | _ => True end.
Lemma qtank_do_ledger t o : qop_wet o -> qledger t /\ plain_quiet t -> qledger (fst (qtank_do t o)) /\ plain_quiet (fst (qtank_do t o)).
Proof.
  intros Hw [L Q]. destruct o as [v time f | q | v | ov | | T | | T |]; cbn [qtank_do fst].
  - split; [apply qt_push_ledger; assumption|].
    intros E c. unfold qt_push in *. destruct f; cbn [fst qt_l] in *; [apply Q; exact E|].
    unfold l_send_push in *. destruct (Qltb (vol v) eps); cbn [fst qt_l] in *; [apply Q; exact E|].
    set (np := vchange v (Qmax (vol v - vol (a_excess_push qts qt_port (l_a (qt_l t)) (qt_s t) (Some v))) 0)) in *.
    set (l1 := l_enter (qt_l t) (time + l_n (qt_l t)) (vsub v np)) in *.
    pose proof (l_update_qt l1 (qt_s t)) as HU.
    destruct (l_update qts qt_port l1 (qt_s t)) as [[l2 s2] back].
    destruct HU as (_ & _ & _ & _ & Hdec & Hd2 & _ & _). cbn [fst qt_l l_dec l_decayed] in *.
    rewrite Hd2. rewrite Hdec in E.
    destruct (l_enter_frame (qt_l t) (time + l_n (qt_l t)) (vsub v np)) as (F1 & _ & _). fold l1 in F1. rewrite F1 in E.
    unfold l1, l_enter. rewrite E. cbn [l_decayed]. apply Q. exact E.
  - split; [apply qt_pull_ledger; exact L | exact Q].
  - split; [apply qt_pull_exact_ledger; exact L | exact Q].
  - split; assumption.
  - split; assumption.
  - apply qt_end_ledger; assumption.
  - split; assumption.
  - split; [exact L | exact Q].
  - apply qt_reinit_ledger.
Qed.

Theorem qtank_run_ledger : forall ops t, Forall qop_wet ops -> qledger t /\ plain_quiet t ->
  forall k, let t' := fold_left (fun s o => fst (qtank_do s o)) (firstn k ops) t in qledger t' /\ plain_quiet t'.
Proof.
  induction ops as [|o ops IH]; intros t Hw H k; destruct k as [|k]; cbn [firstn fold_left]; try exact H.
  inversion Hw as [|? ? Ho Hr]; subst. apply IH; [exact Hr | apply qtank_do_ledger; assumption].
Qed.

Lemma qt_init_ledger cap0 init n dec : qledger (qt_init cap0 init n dec) /\ plain_quiet (qt_init cap0 init n dec).
Proof.
  split.
  - intros c Hc. unfold qt_init, l_init. cbn [qt_s qt_l s_sto s_act l_b l_decayed csum]. rewrite !cmp_zero. ring.
  - intros _ c. unfold qt_init, l_init. cbn [qt_l l_decayed]. apply cmp_zero.
Qed.
