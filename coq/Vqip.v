(* Vqip.v — fluxes (VQIP: volume, additive pollutant masses, non-additive
   qualities) over exact rationals.  Vectors are lists; a missing component
   reads as 0, so no length side-conditions appear in any theorem.
   All executable operations normalise their result with Qred (vnorm); the
   lemma cmp_norm hides that from every proof above this file. *)
From Coq Require Import QArith Qminmax Qabs Lqa Lia List Bool Setoid Morphisms.
Import ListNotations.
Open Scope Q_scope.

Definition vec := list Q.
Definition get (l : vec) (k : nat) : Q := nth k l 0.

Fixpoint vmap2 (f : Q -> Q -> Q) (a b : vec) {struct a} : vec :=
  match a with
  | [] => map (fun y => f 0 y) b
  | x :: a' =>
      match b with
      | [] => map (fun x => f x 0) a
      | y :: b' => f x y :: vmap2 f a' b'
      end
  end.

Lemma get_nil k : get [] k = 0.
Proof. unfold get; destruct k; reflexivity. Qed.

Lemma get_map0 g l k : g 0 == 0 -> get (map g l) k == g (get l k).
Proof.
  intros H. revert k; induction l as [|x l IH]; intros [|k]; unfold get in *;
    simpl; try (symmetry; exact H); try reflexivity. apply IH.
Qed.

Lemma get_vmap2 f a b k :
  f 0 0 == 0 -> get (vmap2 f a b) k == f (get a k) (get b k).
Proof.
  intros H. revert b k; induction a as [|x a IH]; intros b k.
  - simpl. rewrite (get_map0 (fun y => f 0 y)) by exact H.
    rewrite get_nil. reflexivity.
  - destruct b as [|y b].
    + change (vmap2 f (x :: a) []) with (map (fun x => f x 0) (x :: a)).
      rewrite (get_map0 (fun x => f x 0)) by exact H.
      rewrite get_nil. reflexivity.
    + destruct k; unfold get in *; simpl; [reflexivity | apply IH].
Qed.

Lemma get_Qred l k : get (map Qred l) k == get l k.
Proof. rewrite get_map0; [apply Qred_correct | reflexivity]. Qed.

(* Extensional equality of vectors (padded with zeros). *)
Definition veq (a b : vec) : Prop := forall k, get a k == get b k.
Global Instance veq_equiv : Equivalence veq.
Proof.
  split; [intros a k; reflexivity | intros a b H k; symmetry; apply H
         | intros a b c H1 H2 k; rewrite (H1 k); apply H2].
Qed.

Record vqip := mkV { vol : Q; adds : vec; nons : vec }.

Inductive sel := SVol | SAdd (k : nat) | SNon (k : nat).
Definition cmp (c : sel) (v : vqip) : Q :=
  match c with
  | SVol => vol v
  | SAdd k => get (adds v) k
  | SNon k => get (nons v) k
  end.
Definition conserved (c : sel) : Prop :=
  match c with SNon _ => False | _ => True end.

(* full equality and equality on conserved components *)
Definition vq_eq (a b : vqip) : Prop := forall c, cmp c a == cmp c b.
Definition vq_ceq (a b : vqip) : Prop := forall c, conserved c -> cmp c a == cmp c b.
Infix "≡" := vq_eq (at level 70).
Infix "≐" := vq_ceq (at level 70).

Global Instance vq_eq_equiv : Equivalence vq_eq.
Proof.
  split; [intros a c; reflexivity | intros a b H c; symmetry; apply H
         | intros a b d H1 H2 c; rewrite (H1 c); apply H2].
Qed.
Global Instance vq_ceq_equiv : Equivalence vq_ceq.
Proof.
  split; [intros a c _; reflexivity | intros a b H c Hc; symmetry; apply H; exact Hc
         | intros a b d H1 H2 c Hc; rewrite (H1 c Hc); apply H2; exact Hc].
Qed.
Lemma vq_eq_ceq a b : a ≡ b -> a ≐ b.
Proof. intros H c _; apply H. Qed.

Definition vzero : vqip := mkV 0 [] [].
Lemma cmp_zero c : cmp c vzero == 0.
Proof. destruct c as [|k|k]; simpl; rewrite ?get_nil; reflexivity. Qed.

Definition vnorm (v : vqip) : vqip :=
  mkV (Qred (vol v)) (map Qred (adds v)) (map Qred (nons v)).
Lemma cmp_norm c v : cmp c (vnorm v) == cmp c v.
Proof. destruct c; simpl; [apply Qred_correct | apply get_Qred | apply get_Qred]. Qed.
Lemma vnorm_eq v : vnorm v ≡ v.
Proof. intro c; apply cmp_norm. Qed.

(* ---- the flux operations of wsimod.core.core.WSIObj (hand-written,
        normalised; CoreBridge.v proves them equal to the translated ones) ---- *)

(* sum_vqip *)
Definition vsum (a b : vqip) : vqip :=
  vnorm (mkV (vol a + vol b)
             (vmap2 Qplus (adds a) (adds b))
             (if Qlt_le_dec 0 (vol a + vol b)
              then vmap2 (fun x y => (y * vol b + x * vol a) / (vol a + vol b)) (nons a) (nons b)
              else nons a)).
(* extract_vqip *)
Definition vsub (a b : vqip) : vqip :=
  vnorm (mkV (vol a - vol b) (vmap2 Qminus (adds a) (adds b)) (nons a)).
(* ds_vqip *)
Definition vds (a b : vqip) : vqip :=
  vnorm (mkV (vol a - vol b) (vmap2 Qminus (adds a) (adds b)) []).
(* v_change_vqip *)
Definition vchange (t : vqip) (v : Q) : vqip :=
  vnorm (if Qlt_le_dec 0 (vol t)
         then mkV (vol t * (v / vol t)) (map (fun x => x * (v / vol t)) (adds t)) (nons t)
         else mkV v (adds t) (nons t)).
(* v_distill_vqip *)
Definition vdistill (t : vqip) (v : Q) : vqip :=
  vnorm (mkV (vol t - v) (adds t) (nons t)).
(* concentration_to_total / total_to_concentration *)
Definition vc2t (c : vqip) : vqip :=
  vnorm (mkV (vol c) (map (fun x => x * vol c) (adds c)) (nons c)).
Definition vt2c (t : vqip) : vqip :=
  vnorm (mkV (vol t) (map (fun x => x / vol t) (adds t)) (nons t)).
(* blend_vqip (concentration form) *)
Definition vblend (a b : vqip) : vqip :=
  vnorm (if Qlt_le_dec 0 (vol a + vol b)
         then mkV (vol a + vol b)
                  (vmap2 (fun x y => (x * vol a + y * vol b) / (vol a + vol b)) (adds a) (adds b))
                  (vmap2 (fun x y => (x * vol a + y * vol b) / (vol a + vol b)) (nons a) (nons b))
         else mkV (vol a + vol b) [] []).

Global Opaque Qred.

(* ---- component lemmas: everything above this file goes through these ---- *)
Lemma vol_sum a b : vol (vsum a b) == vol a + vol b.
Proof. unfold vsum, vnorm; simpl. apply Qred_correct. Qed.
Lemma cmp_sum c a b : conserved c -> cmp c (vsum a b) == cmp c a + cmp c b.
Proof.
  intros Hc. unfold vsum; rewrite cmp_norm. destruct c; simpl; try reflexivity; [|destruct Hc].
  apply get_vmap2. lra.
Qed.
Lemma non_sum_pos k a b : 0 < vol a + vol b ->
  get (nons (vsum a b)) k == (get (nons b) k * vol b + get (nons a) k * vol a) / (vol a + vol b).
Proof.
  intros H. change (get (nons (vsum a b)) k) with (cmp (SNon k) (vsum a b)).
  unfold vsum; rewrite cmp_norm; simpl. destruct (Qlt_le_dec 0 (vol a + vol b)); [|lra].
  rewrite get_vmap2; [reflexivity|]. unfold Qdiv; ring.
Qed.
Lemma non_sum_dry k a b : vol a + vol b <= 0 ->
  get (nons (vsum a b)) k == get (nons a) k.
Proof.
  intros H. change (get (nons (vsum a b)) k) with (cmp (SNon k) (vsum a b)).
  unfold vsum; rewrite cmp_norm; simpl. destruct (Qlt_le_dec 0 (vol a + vol b)); [lra|reflexivity].
Qed.
Lemma cmp_sub c a b : conserved c -> cmp c (vsub a b) == cmp c a - cmp c b.
Proof.
  intros Hc. unfold vsub; rewrite cmp_norm. destruct c; simpl; try reflexivity; [|destruct Hc].
  apply get_vmap2. lra.
Qed.
Lemma non_sub k a b : get (nons (vsub a b)) k == get (nons a) k.
Proof. change (get (nons (vsub a b)) k) with (cmp (SNon k) (vsub a b)).
  unfold vsub; rewrite cmp_norm; reflexivity. Qed.
Lemma cmp_ds c a b : conserved c -> cmp c (vds a b) == cmp c a - cmp c b.
Proof.
  intros Hc. unfold vds; rewrite cmp_norm. destruct c; simpl; try reflexivity; [|destruct Hc].
  apply get_vmap2. lra.
Qed.
Lemma non_ds k a b : get (nons (vds a b)) k == 0.
Proof. change (get (nons (vds a b)) k) with (cmp (SNon k) (vds a b)).
  unfold vds; rewrite cmp_norm; simpl. rewrite get_nil; reflexivity. Qed.
Lemma vol_change t v : vol (vchange t v) == v.
Proof.
  change (vol (vchange t v)) with (cmp SVol (vchange t v)).
  unfold vchange; rewrite cmp_norm. destruct (Qlt_le_dec 0 (vol t)); simpl; [field; lra | reflexivity].
Qed.
Lemma add_change_pos k t v : 0 < vol t ->
  get (adds (vchange t v)) k == get (adds t) k * (v / vol t).
Proof.
  intros H. change (get (adds (vchange t v)) k) with (cmp (SAdd k) (vchange t v)).
  unfold vchange; rewrite cmp_norm. destruct (Qlt_le_dec 0 (vol t)); [|lra]. simpl.
  rewrite (get_map0 (fun x => x * (v / vol t))); [reflexivity | lra].
Qed.
Lemma add_change_dry k t v : vol t <= 0 ->
  get (adds (vchange t v)) k == get (adds t) k.
Proof.
  intros H. change (get (adds (vchange t v)) k) with (cmp (SAdd k) (vchange t v)).
  unfold vchange; rewrite cmp_norm. destruct (Qlt_le_dec 0 (vol t)); [lra|reflexivity].
Qed.
Lemma non_change k t v : get (nons (vchange t v)) k == get (nons t) k.
Proof.
  change (get (nons (vchange t v)) k) with (cmp (SNon k) (vchange t v)).
  unfold vchange; rewrite cmp_norm. destruct (Qlt_le_dec 0 (vol t)); reflexivity.
Qed.
Lemma cmp_change_pos c t v : conserved c -> 0 < vol t ->
  cmp c (vchange t v) == cmp c t * (v / vol t).
Proof.
  intros Hc H. destruct c; [| |destruct Hc].
  - cbn [cmp]. rewrite vol_change. field; lra.
  - cbn [cmp]. apply add_change_pos; exact H.
Qed.
Lemma vol_distill t v : vol (vdistill t v) == vol t - v.
Proof. unfold vdistill, vnorm; simpl. apply Qred_correct. Qed.
Lemma add_distill k t v : get (adds (vdistill t v)) k == get (adds t) k.
Proof. unfold vdistill, vnorm; simpl. apply get_Qred. Qed.
Lemma non_distill k t v : get (nons (vdistill t v)) k == get (nons t) k.
Proof. unfold vdistill, vnorm; simpl. apply get_Qred. Qed.

(* "wet": non-negative everywhere, pollutant mass only with positive volume *)
Definition nonneg (v : vqip) : Prop := forall c, conserved c -> 0 <= cmp c v.
Definition wet (v : vqip) : Prop :=
  nonneg v /\ (vol v <= 0 -> forall k, get (adds v) k == 0).

(* the target volume of a rescaling may be replaced by an equal rational *)
Lemma vchange_ext t v1 v2 c : v1 == v2 -> cmp c (vchange t v1) == cmp c (vchange t v2).
Proof.
  intros H. unfold vchange. rewrite !cmp_norm. destruct (Qlt_le_dec 0 (vol t)); destruct c as [|k|k]; cbn [cmp vol adds nons];
    try reflexivity; try (rewrite H; reflexivity).
  rewrite (get_map0 (fun x => x * (v1 / vol t))) by lra.
  rewrite (get_map0 (fun x => x * (v2 / vol t))) by lra. rewrite H. reflexivity.
Qed.
