(* Leak.v — executable model of wsimod/nodes/distribution.py: a Distribution is a junction that denies pushes and,
   when leakage > 0, decorates its pull handlers (decorate_leakage_check / decorate_leakage_set): the request is
   scaled up by 1 / (1 - leakage), the leaked share of what was gathered is pushed to groundwater neighbours, and what
   groundwater does not take is handed to the consumer.  A node is its in-star (suppliers) and its out-star
   (consumers and groundwater).  Model file, no proofs (LeakLaws.v). *)
From Coq Require Import QArith Qminmax List Bool Arith.
From WSI Require Import Vqip Pow Tank Arc Distrib Kinds.
Import ListNotations.
Open Scope Q_scope.

Section Leak.
Variable S : Type.
Variable P : port S.
Variable maxiter : nat.

Record dnode := mkDN { dn_ins : star S; dn_outs : star S; dn_leak : Q }.

(* pull_check: Node.pull_check_basic over all in-arcs, decorated *)
Definition dn_pull_check (n : dnode) (ov : option Q) : vqip :=
  if Qle_bool (dn_leak n) 0 then check_basic S P false None (dn_ins n) ov
  else
    let ov' := option_map (fun q => q / (1 - dn_leak n)) ov in
    let reply := check_basic S P false None (dn_ins n) ov' in
    vsub reply (vchange reply (vol reply * dn_leak n)).

(* pull_set: Node.pull_distributed over all in-arcs, decorated *)
Definition dn_pull_set (n : dnode) (q : Q) : option (dnode * vqip) :=
  if Qle_bool (dn_leak n) 0 then
    match pull_distributed S P maxiter None (dn_ins n) q with
    | None => None
    | Some (ins', got, _) => Some (mkDN ins' (dn_outs n) (dn_leak n), got)
    end
  else
    match pull_distributed S P maxiter None (dn_ins n) (q / (1 - dn_leak n)) with
    | None => None
    | Some (ins', got, _) =>
        let leaked := vchange got (vol got * dn_leak n) in
        let reply := vsub got leaked in
        match push_distributed S P maxiter (Some [T_GROUNDWATER]) (dn_outs n) leaked with
        | None => None
        | Some (outs', unplaced, _) =>
            Some (mkDN ins' outs' (dn_leak n),
                  if Qltb eps (vol unplaced) then vsum reply unplaced else reply)
        end
    end.

(* apply_overrides({"leakage": l}) *)
Definition dn_override (n : dnode) (l : Q) : dnode := mkDN (dn_ins n) (dn_outs n) l.

End Leak.
