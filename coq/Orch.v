(* Orch.v — model of the river ordering of wsimod/orchestration/model.py
   (Model.add_arcs / assign_upstream / river_discharge_order) and of run
   chunking.  Nodes are numbers; `lv` is the Python dict `upstreamness` as an
   association list in insertion order.  Definitions first (used by the
   correspondence check), laws below. *)
From Coq Require Import List Arith Lia Bool Permutation Sorting.Sorted.
Import ListNotations.

Definition arc := (nat * nat)%type.          (* (in_port, out_port) *)
Definition lv := list (nat * nat).            (* node -> level, insertion ordered *)

Fixpoint lookup (l : lv) (n : nat) : option nat :=
  match l with [] => None | (k, x) :: r => if Nat.eqb k n then Some x else lookup r n end.
Fixpoint upd (l : lv) (n x : nat) : lv :=
  match l with
  | [] => [(n, x)]
  | (k, y) :: r => if Nat.eqb k n then (k, x) :: r else (k, y) :: upd r n x
  end.

(* one pass over the arcs: raise the level of an arc's upstream end to one more than its downstream end *)
Definition relax1 (st : lv * bool) (a : arc) : lv * bool :=
  let '(l, ch) := st in
  match lookup l (snd a) with
  | None => (l, ch)
  | Some lo =>
      let cur := match lookup l (fst a) with Some x => x | None => 0 end in
      if Nat.ltb cur (lo + 1) then (upd l (fst a) (lo + 1), true) else (l, ch)
  end.
Definition relax_pass (arcs : list arc) (l : lv) : lv * bool := fold_left relax1 arcs (l, false).
Fixpoint relax (fuel : nat) (arcs : list arc) (l : lv) : lv * bool :=   (* (levels, converged) *)
  match fuel with
  | O => (l, false)
  | S f => let '(l', ch) := relax_pass arcs l in if ch then relax f arcs l' else (l', true)
  end.
Definition assign_upstream (arcs : list arc) (outlets : list nat) : lv * bool :=
  relax (length arcs + 1) arcs (map (fun o => (o, 0)) outlets).

(* sorted(items, key=level, reverse=True): stable, highest level first *)
Fixpoint insert_desc (x : nat * nat) (l : lv) : lv :=
  match l with
  | [] => [x]
  | y :: r => if Nat.leb (snd y) (snd x) then x :: y :: r else y :: insert_desc x r
  end.
Definition sort_desc (l : lv) : lv := fold_right insert_desc [] l.
Definition river_order (arcs : list arc) (outlets : list nat) (is_river : nat -> bool) : list nat :=
  filter is_river (map fst (sort_desc (fst (assign_upstream arcs outlets)))).

(* ------------------------------------------------------------------------- *)
(* laws *)
Definition keys (l : lv) : list nat := map fst l.
Definition level (l : lv) (n : nat) : nat := match lookup l n with Some x => x | None => 0 end.
(* every river arc goes strictly downhill in level, and nodes draining to a levelled node are levelled *)
Definition stable (arcs : list arc) (l : lv) : Prop :=
  forall u v, In (u, v) arcs -> forall lo, lookup l v = Some lo ->
    exists lu, lookup l u = Some lu /\ lo + 1 <= lu.

Lemma lookup_upd_same l n x : lookup (upd l n x) n = Some x.
Proof.
  induction l as [|[k y] r IH]; cbn; [rewrite Nat.eqb_refl; reflexivity|].
  destruct (Nat.eqb k n) eqn:E; cbn; rewrite E; [reflexivity | exact IH].
Qed.
Lemma lookup_upd_other l n x m : m <> n -> lookup (upd l n x) m = lookup l m.
Proof.
  intros Hne. induction l as [|[k y] r IH]; cbn.
  - destruct (Nat.eqb n m) eqn:E; [apply Nat.eqb_eq in E; congruence | reflexivity].
  - destruct (Nat.eqb k n) eqn:E; cbn.
    + apply Nat.eqb_eq in E. subst k. destruct (Nat.eqb n m) eqn:E2; [apply Nat.eqb_eq in E2; congruence | reflexivity].
    + destruct (Nat.eqb k m); [reflexivity | exact IH].
Qed.

(* a pass that changes nothing leaves every arc satisfied *)
Lemma relax1_false st a l : relax1 st a = (l, false) -> st = (l, false) /\
  (forall lo, lookup l (snd a) = Some lo -> exists lu, lookup l (fst a) = Some lu /\ lo + 1 <= lu).
Proof.
  destruct st as [l0 ch]. unfold relax1.
  destruct (lookup l0 (snd a)) as [lo|] eqn:El.
  - destruct (lookup l0 (fst a)) as [x|] eqn:Eu.
    + destruct (Nat.ltb x (lo + 1)) eqn:Elt; intros H; inversion H; subst.
      split; [reflexivity|]. intros lo' Hlo. rewrite El in Hlo. inversion Hlo; subst.
      exists x. split; [exact Eu|]. apply Nat.ltb_ge in Elt. lia.
    + destruct (Nat.ltb 0 (lo + 1)) eqn:Elt; intros H; inversion H; subst.
      apply Nat.ltb_ge in Elt. lia.
  - intros H; inversion H; subst. split; [reflexivity|]. intros lo Hlo. rewrite El in Hlo. discriminate.
Qed.
Lemma relax1_flag st a : snd st = true -> snd (relax1 st a) = true.
Proof.
  destruct st as [l ch]. cbn. intros ->. unfold relax1.
  destruct (lookup l (snd a)); [|reflexivity]. match goal with |- context [if ?b then _ else _] => destruct b end; reflexivity.
Qed.
Lemma fold_flag arcs : forall st, snd st = true -> snd (fold_left relax1 arcs st) = true.
Proof. induction arcs as [|a r IH]; intros st H; cbn [fold_left]; [exact H | apply IH, relax1_flag, H]. Qed.

Lemma pass_false_stable arcs : forall l l', fold_left relax1 arcs (l, false) = (l', false) ->
  l' = l /\ forall a, In a arcs -> forall lo, lookup l (snd a) = Some lo ->
     exists lu, lookup l (fst a) = Some lu /\ lo + 1 <= lu.
Proof.
  induction arcs as [|a r IH]; intros l l' H; cbn [fold_left] in H.
  - inversion H; subst. split; [reflexivity | intros a []].
  - destruct (relax1 (l, false) a) as [l1 ch1] eqn:E1.
    destruct ch1.
    + pose proof (fold_flag r (l1, true) eq_refl) as Hf. rewrite H in Hf. discriminate.
    + destruct (relax1_false _ _ _ E1) as [E2 Ha]. inversion E2; subst l1.
      destruct (IH _ _ H) as [El Hr]. split; [exact El|].
      intros b [Hb|Hb]; [subst b; exact Ha | apply Hr; exact Hb].
Qed.

Theorem relax_converged_stable : forall fuel arcs l l', relax fuel arcs l = (l', true) -> stable arcs l'.
Proof.
  induction fuel as [|f IH]; intros arcs l l' H; cbn [relax] in H; [discriminate|].
  unfold relax_pass in H. destruct (fold_left relax1 arcs (l, false)) as [l1 ch] eqn:Ep.
  destruct ch; [eapply IH; exact H|]. inversion H; subst l1.
  destruct (pass_false_stable arcs l l' Ep) as [El Hs]. subst l'.
  intros u v Hin lo Hlo. exact (Hs (u, v) Hin lo Hlo).
Qed.

(* hence along any path of river arcs that ends at a levelled node, levels strictly decrease *)
Inductive path (arcs : list arc) : nat -> nat -> Prop :=
| path_one u v : In (u, v) arcs -> path arcs u v
| path_step u w v : In (u, w) arcs -> path arcs w v -> path arcs u v.
Lemma stable_path arcs l : stable arcs l -> forall u v, path arcs u v ->
  forall lo, lookup l v = Some lo -> exists lu, lookup l u = Some lu /\ lo + 1 <= lu.
Proof.
  intros Hs u v Hp. induction Hp as [u v Hin | u w v Hin Hp IH]; intros lo Hlo.
  - exact (Hs u v Hin lo Hlo).
  - destruct (IH lo Hlo) as (lw & Ew & Hw). destruct (Hs u w Hin lw Ew) as (lu & Eu & Hu).
    exists lu. split; [exact Eu | lia].
Qed.

(* ---- the descending stable sort ---- *)
Definition ge_level (x y : nat * nat) : Prop := snd y <= snd x.
Lemma insert_perm x l : Permutation (x :: l) (insert_desc x l).
Proof.
  induction l as [|y r IH]; cbn [insert_desc]; [apply Permutation_refl|].
  destruct (Nat.leb (snd y) (snd x)); [apply Permutation_refl|].
  eapply Permutation_trans; [apply perm_swap | apply perm_skip; exact IH].
Qed.
Lemma sort_perm l : Permutation l (sort_desc l).
Proof.
  induction l as [|x r IH]; cbn [sort_desc fold_right]; [constructor|].
  eapply Permutation_trans; [apply perm_skip; exact IH | apply insert_perm].
Qed.
Lemma insert_sorted x l : StronglySorted ge_level l -> StronglySorted ge_level (insert_desc x l).
Proof.
  induction 1 as [|y r Hs IH Hall]; cbn [insert_desc]; [constructor; constructor|].
  destruct (Nat.leb (snd y) (snd x)) eqn:E.
  - apply Nat.leb_le in E. constructor; [constructor; assumption|].
    constructor; [unfold ge_level; lia|]. eapply Forall_impl; [|exact Hall]. intros z Hz. unfold ge_level in *. lia.
  - apply Nat.leb_gt in E. constructor; [exact IH|].
    eapply Permutation_Forall; [apply insert_perm|]. constructor; [unfold ge_level; lia | exact Hall].
Qed.
Lemma sort_sorted l : StronglySorted ge_level (sort_desc l).
Proof. induction l as [|x r IH]; cbn [sort_desc fold_right]; [constructor | apply insert_sorted; exact IH]. Qed.

(* "x occurs before y" *)
Definition before {A} (x y : A) (l : list A) : Prop := exists l1 l2 l3, l = l1 ++ x :: l2 ++ y :: l3.
Lemma before_map {A B} (f : A -> B) x y l : before x y l -> before (f x) (f y) (map f l).
Proof. intros (l1 & l2 & l3 & E). subst. exists (map f l1), (map f l2), (map f l3). rewrite !map_app; cbn; rewrite map_app; reflexivity. Qed.
Lemma before_filter {A} (p : A -> bool) x y l : p x = true -> p y = true -> before x y l -> before x y (filter p l).
Proof.
  intros Hx Hy (l1 & l2 & l3 & E). subst. exists (filter p l1), (filter p l2), (filter p l3).
  rewrite !filter_app; cbn; rewrite Hx, filter_app; cbn; rewrite Hy. reflexivity.
Qed.
Lemma sorted_before l x y : StronglySorted ge_level l -> In x l -> In y l -> snd y < snd x -> before x y l.
Proof.
  induction 1 as [|z r Hs IH Hall]; intros Hx Hy Hlt; [destruct Hx|].
  destruct Hx as [Hx|Hx].
  - subst z. destruct Hy as [Hy|Hy]; [subst; lia|].
    apply in_split in Hy. destruct Hy as (a & b & E). exists [], a, b. cbn. rewrite E. reflexivity.
  - destruct Hy as [Hy|Hy].
    + subst z. pose proof (proj1 (Forall_forall _ _) Hall x Hx) as H. unfold ge_level in H. lia.
    + destruct (IH Hx Hy Hlt) as (l1 & l2 & l3 & E). exists (z :: l1), l2, l3. cbn. rewrite E. reflexivity.
Qed.

Lemma lookup_in l n x : lookup l n = Some x -> In (n, x) l.
Proof.
  induction l as [|[k y] r IH]; cbn; [discriminate|].
  destruct (Nat.eqb k n) eqn:E; intros H; [apply Nat.eqb_eq in E; inversion H; subst; left; reflexivity | right; apply IH; exact H].
Qed.

(* Upstream first: when the levels have converged, a river discharges before every river it can reach
   through river/junction/reservoir arcs, provided the downstream one drains (transitively) to an outlet,
   i.e. has a level.  Both are in the order exactly once is `every_levelled_once` below. *)
Theorem upstream_first arcs outlets is_river u v l :
  assign_upstream arcs outlets = (l, true) ->
  path arcs u v -> is_river u = true -> is_river v = true -> In v (keys l) ->
  before u v (river_order arcs outlets is_river).
Proof.
  intros Ha Hp Hu Hv Hin. unfold river_order. rewrite Ha. cbn [fst].
  pose proof (relax_converged_stable _ _ _ _ Ha) as Hs.
  assert (Hlv : exists lo, lookup l v = Some lo).
  { unfold keys in Hin. apply in_map_iff in Hin. destruct Hin as ([k x] & E & Hk). cbn in E. subst k.
    clear -Hk. induction l as [|[k y] r IH]; [destruct Hk|]. cbn. destruct (Nat.eqb k v) eqn:E; [eexists; reflexivity|].
    destruct Hk as [Hk|Hk]; [inversion Hk; subst; rewrite Nat.eqb_refl in E; discriminate | apply IH; exact Hk]. }
  destruct Hlv as (lo & Elo). destruct (stable_path arcs l Hs u v Hp lo Elo) as (lu & Elu & Hlt).
  apply before_filter; [exact Hu | exact Hv|].
  change u with (fst (u, lu)). change v with (fst (v, lo)). apply before_map.
  apply sorted_before; [apply sort_sorted | | | cbn; lia];
    (eapply Permutation_in; [apply sort_perm | apply lookup_in; assumption]).
Qed.

Lemma NoDup_app_snoc_local {A} (l : list A) n : NoDup l -> ~ In n l -> NoDup (l ++ [n]).
Proof.
  induction 1 as [|x r Hx Hr IH]; intros Hn; cbn; [constructor; [intros [] | constructor]|].
  constructor.
  - intros Hin. apply in_app_or in Hin. destruct Hin as [Hin|[Hin|[]]]; [exact (Hx Hin) | subst; apply Hn; left; reflexivity].
  - apply IH. intros Hin. apply Hn. right. exact Hin.
Qed.
(* keys stay unique, so every levelled node is in the order exactly once *)
Lemma keys_upd l n x : keys (upd l n x) = if existsb (Nat.eqb n) (keys l) then keys l else keys l ++ [n].
Proof.
  induction l as [|[k y] r IH]; cbn; [reflexivity|].
  destruct (Nat.eqb k n) eqn:E.
  - apply Nat.eqb_eq in E. subst k. rewrite Nat.eqb_refl. reflexivity.
  - rewrite Nat.eqb_sym, E. cbn. unfold keys in IH. rewrite IH. destruct (existsb (Nat.eqb n) (map fst r)); reflexivity.
Qed.
Lemma NoDup_keys_upd l n x : NoDup (keys l) -> NoDup (keys (upd l n x)).
Proof.
  intros H. rewrite keys_upd. destruct (existsb (Nat.eqb n) (keys l)) eqn:E; [exact H|].
  apply NoDup_app_snoc_local.
  - exact H.
  - intros Hin. assert (existsb (Nat.eqb n) (keys l) = true) by (apply existsb_exists; exists n; split; [exact Hin | apply Nat.eqb_refl]). congruence.
Qed.
Lemma relax1_nodup st a : NoDup (keys (fst st)) -> NoDup (keys (fst (relax1 st a))).
Proof.
  destruct st as [l ch]. cbn [fst]. intros H. unfold relax1.
  destruct (lookup l (snd a)); [|exact H]. match goal with |- context [if ?b then _ else _] => destruct b end; cbn [fst]; [apply NoDup_keys_upd; exact H | exact H].
Qed.
Lemma fold_nodup arcs : forall st, NoDup (keys (fst st)) -> NoDup (keys (fst (fold_left relax1 arcs st))).
Proof. induction arcs as [|a r IH]; intros st H; cbn [fold_left]; [exact H | apply IH, relax1_nodup, H]. Qed.
Lemma relax_nodup : forall fuel arcs l, NoDup (keys l) -> NoDup (keys (fst (relax fuel arcs l))).
Proof.
  induction fuel as [|f IH]; intros arcs l H; cbn [relax]; [exact H|].
  unfold relax_pass. pose proof (fold_nodup arcs (l, false) H) as H1.
  destruct (fold_left relax1 arcs (l, false)) as [l1 ch]. cbn [fst] in H1. destruct ch; [apply IH; exact H1 | exact H1].
Qed.

Theorem every_levelled_once arcs outlets is_river : NoDup outlets ->
  NoDup (river_order arcs outlets is_river) /\
  forall n, In n (keys (fst (assign_upstream arcs outlets))) -> is_river n = true ->
            In n (river_order arcs outlets is_river).
Proof.
  intros Hn. unfold river_order.
  assert (Hk : NoDup (keys (fst (assign_upstream arcs outlets)))).
  { unfold assign_upstream. apply relax_nodup. unfold keys. rewrite map_map. cbn. rewrite map_id. exact Hn. }
  set (l := fst (assign_upstream arcs outlets)) in *.
  assert (Hp : Permutation (keys l) (map fst (sort_desc l))) by (apply Permutation_map, sort_perm).
  split.
  - apply NoDup_filter. eapply Permutation_NoDup; [exact Hp | exact Hk].
  - intros n Hin Hr. apply filter_In. split; [eapply Permutation_in; [exact Hp | exact Hin] | exact Hr].
Qed.

(* ---- run chunking: if all simulation state is in the model state, a run in pieces is one run ---- *)
Section Chunking.
Variables (State Date Out : Type) (step : State -> Date -> State * Out).
Fixpoint run (s : State) (ds : list Date) : State * list Out :=
  match ds with
  | [] => (s, [])
  | d :: r => let '(s1, o) := step s d in let '(s2, os) := run s1 r in (s2, o :: os)
  end.
Theorem run_app s d1 d2 :
  run s (d1 ++ d2) = let '(s1, o1) := run s d1 in let '(s2, o2) := run s1 d2 in (s2, o1 ++ o2).
Proof.
  revert s. induction d1 as [|d r IH]; intros s; cbn.
  - destruct (run s d2); reflexivity.
  - destruct (step s d) as [s1 o]. rewrite IH. destruct (run s1 r) as [s2 os]. destruct (run s2 d2). reflexivity.
Qed.
(* a run interrupted at ANY boundary k and continued from the state reached (which is all that a
   pickle of the model holds) is the uninterrupted run *)
Theorem run_resumed s ds k :
  run s ds = let '(s1, o1) := run s (firstn k ds) in let '(s2, o2) := run s1 (skipn k ds) in (s2, o1 ++ o2).
Proof. rewrite <- (firstn_skipn k ds) at 1. apply run_app. Qed.
End Chunking.
