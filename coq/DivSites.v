(* DivSites.v — the division-site part of C12, over the finite table that harness/gen_divs.py
   regenerates from the tree under test on every run (gen/GenDivs.v): every division of the library -
   with the function it is in, its divisor and the conditions guarding it - is one of the sites of
   the reviewed baseline (DivBaseline.v).  No division has appeared, changed its divisor or lost a
   guard since the review; the review put each site into one of three classes (non-zero constant /
   guarded by a condition on the divisor / non-zero by well-formedness of parameters and data). *)
From Coq Require Import String List Bool.
From WSI.gen Require Import GenDivs.
From WSI Require Import DivBaseline.
Import ListNotations.
Open Scope string_scope.

Fixpoint strs_eqb (a b : list string) : bool :=
  match a, b with
  | [], [] => true
  | x :: a', y :: b' => String.eqb x y && strs_eqb a' b'
  | _, _ => false
  end.
Definition row_eqb (a b : string * string * string * list string) : bool :=
  let '(f1, q1, d1, g1) := a in let '(f2, q2, d2, g2) := b in
  String.eqb f1 f2 && String.eqb q1 q2 && String.eqb d1 d2 && strs_eqb g1 g2.
Definition reviewed (r : string * string * string * list string) : bool := existsb (row_eqb r) reviewed_sites.

(* finite by construction: the theorem is about exactly the generated table *)
Theorem division_sites_reviewed : forallb reviewed div_sites = true.
Proof. vm_compute. reflexivity. Qed.

Lemma strs_eqb_eq a : forall b, strs_eqb a b = true -> a = b.
Proof.
  induction a as [|x a IH]; intros [|y b] H; cbn in H; try discriminate; [reflexivity|].
  apply andb_true_iff in H as [H1 H2]. apply String.eqb_eq in H1. rewrite H1, (IH b H2). reflexivity.
Qed.
Lemma row_eqb_eq a b : row_eqb a b = true -> a = b.
Proof.
  destruct a as [[[f1 q1] d1] g1], b as [[[f2 q2] d2] g2]. cbn [row_eqb]. intros H.
  apply andb_true_iff in H as [H Hg]. apply andb_true_iff in H as [H Hd]. apply andb_true_iff in H as [Hf Hq].
  apply String.eqb_eq in Hf, Hq, Hd. apply strs_eqb_eq in Hg. subst. reflexivity.
Qed.
Theorem division_sites_reviewed_forall : forall r, In r div_sites -> In r reviewed_sites.
Proof.
  intros r H. pose proof (proj1 (forallb_forall _ _) division_sites_reviewed r H) as Hr.
  unfold reviewed in Hr. apply existsb_exists in Hr as (b & Hb & E). apply row_eqb_eq in E. subst. exact Hb.
Qed.
