#!/bin/bash
# Builds the whole Coq development from files on disk (offline). Regenerates the
# translated model files from /repo first, so that a later check only rebuilds what changed.
cd "$(dirname "$0")"
export PYTHONPATH="${WSI_REPO:-/repo}:/verif/harness" PYTHONHASHSEED=0 PYTHONDONTWRITEBYTECODE=1
/venv/bin/python - <<'PY'
import common as C, sys
with C.BuildLock():
    C.run_generators()
    C.ensure_makefile()
    srcs = [s[:-2] + ".vo" for s in C.coq_sources()]
    ok, log, failed = C.build(srcs, timeout=3000, jobs=16)
    print(log[-3000:])
    print("setup build ok" if ok else f"setup build FAILED at {failed}")
    sys.exit(0 if ok else 1)
PY
